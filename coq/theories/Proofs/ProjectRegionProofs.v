(** project_region returns the bounding box of the projected region (C13):
    exactly so for projections that are monotone in each coordinate (every
    affine-diagonal, Mercator-like or otherwise separable monotone projection,
    and non-separable ones such as a shear with fixed signs); for arbitrary
    projections the result is the tight box of the projected 101 x 101 nodes,
    which is contained in the box of the projected region (attained bounds)
    but may miss extremes strictly between nodes. *)
From Coq Require Import QArith Qround Qabs ZArith List Bool Lia Lqa.
From Verde Require Import Lib.QExtra Model.Coordinates Model.ProjectRegion
  Proofs.CoordinatesProofs Proofs.RegionProofs.
Import ListNotations.
Open Scope Q_scope.

Definition inc_x (h : Q -> Q -> Q) := forall x x' y, x <= x' -> h x y <= h x' y.
Definition dec_x (h : Q -> Q -> Q) := forall x x' y, x <= x' -> h x' y <= h x y.
Definition inc_y (h : Q -> Q -> Q) := forall x y y', y <= y' -> h x y <= h x y'.
Definition dec_y (h : Q -> Q -> Q) := forall x y y', y <= y' -> h x y' <= h x y.
(** monotone in each coordinate, in a direction that does not depend on the other one *)
Definition cw_monotone (h : Q -> Q -> Q) := (inc_x h \/ dec_x h) /\ (inc_y h \/ dec_y h).

Definition in_box (w e s n x y : Q) := w <= x /\ x <= e /\ s <= y /\ y <= n.

Lemma in_region_nodes w e s n k x y :
  In (x, y) (region_nodes w e s n k) <-> In x (linspace w e k) /\ In y (linspace s n k).
Proof.
  unfold region_nodes. rewrite in_flat_map. split.
  - intros [y' [Hy Hx]]. apply in_map_iff in Hx as [x' [E Hx]]. injection E as <- <-. tauto.
  - intros [Hx Hy]. exists y. split; [exact Hy|]. apply in_map_iff. exists x. tauto.
Qed.

Lemma nodes_in_box w e s n k x y : w <= e -> s <= n ->
  In (x, y) (region_nodes w e s n k) -> in_box w e s n x y.
Proof.
  intros Hwe Hsn H. apply in_region_nodes in H as [Hx Hy].
  apply linspace_bounds in Hx; [|exact Hwe]. apply linspace_bounds in Hy; [|exact Hsn].
  unfold in_box. tauto.
Qed.

(** the end points of an axis are (up to ==) among its nodes *)
Lemma linspace_has_first a b k : (2 <= k)%nat -> exists a', In a' (linspace a b k) /\ a' == a.
Proof.
  intros Hk. exists (nth 0 (linspace a b k) 0). split.
  - apply nth_In. rewrite linspace_length. lia.
  - apply linspace_first. lia.
Qed.
Lemma linspace_has_last a b k : (2 <= k)%nat -> exists b', In b' (linspace a b k) /\ b' == b.
Proof.
  intros Hk. exists (nth (k - 1) (linspace a b k) 0). split.
  - apply nth_In. rewrite linspace_length. lia.
  - apply linspace_last. exact Hk.
Qed.

(** a coordinate-wise monotone function respects == *)
Lemma cw_compat h : cw_monotone h -> forall x x' y y', x == x' -> y == y' -> h x y == h x' y'.
Proof.
  intros [Hx Hy] x x' y y' Ex Ey.
  assert (A: h x y == h x' y).
  { destruct Hx as [Hx|Hx]; apply Qle_antisym; apply Hx; rewrite Ex; apply Qle_refl. }
  assert (B: h x' y == h x' y').
  { destruct Hy as [Hy|Hy]; apply Qle_antisym; apply Hy; rewrite Ey; apply Qle_refl. }
  rewrite A. exact B.
Qed.

(** on a box, such a function is bounded by two of its corner values *)
Lemma cw_corners h w e s n x y : cw_monotone h -> in_box w e s n x y ->
  exists cx cy dx dy, (cx = w \/ cx = e) /\ (cy = s \/ cy = n) /\ (dx = w \/ dx = e) /\ (dy = s \/ dy = n) /\
    h cx cy <= h x y /\ h x y <= h dx dy.
Proof.
  intros [Hx Hy] [B1 [B2 [B3 B4]]].
  destruct Hx as [Hx|Hx]; destruct Hy as [Hy|Hy].
  - exists w, s, e, n. repeat split; auto.
    + apply Qle_trans with (h x s); [apply Hx|apply Hy]; assumption.
    + apply Qle_trans with (h x n); [apply Hy|apply Hx]; assumption.
  - exists w, n, e, s. repeat split; auto.
    + apply Qle_trans with (h x n); [apply Hx|apply Hy]; assumption.
    + apply Qle_trans with (h x s); [apply Hy|apply Hx]; assumption.
  - exists e, s, w, n. repeat split; auto.
    + apply Qle_trans with (h x s); [apply Hx|apply Hy]; assumption.
    + apply Qle_trans with (h x n); [apply Hy|apply Hx]; assumption.
  - exists e, n, w, s. repeat split; auto.
    + apply Qle_trans with (h x n); [apply Hx|apply Hy]; assumption.
    + apply Qle_trans with (h x s); [apply Hy|apply Hx]; assumption.
Qed.

(** every corner of the box is (up to ==) a node *)
Lemma corner_is_node w e s n k cx cy : (2 <= k)%nat ->
  (cx = w \/ cx = e) -> (cy = s \/ cy = n) ->
  exists x' y', In (x', y') (region_nodes w e s n k) /\ x' == cx /\ y' == cy.
Proof.
  intros Hk Hcx Hcy.
  assert (X: exists x', In x' (linspace w e k) /\ x' == cx).
  { destruct Hcx as [->| ->]; [apply linspace_has_first|apply linspace_has_last]; exact Hk. }
  assert (Y: exists y', In y' (linspace s n k) /\ y' == cy).
  { destruct Hcy as [->| ->]; [apply linspace_has_first|apply linspace_has_last]; exact Hk. }
  destruct X as [x' [X1 X2]]. destruct Y as [y' [Y1 Y2]].
  exists x', y'. split; [apply in_region_nodes; tauto|tauto].
Qed.

Section Box.
Variables (f g : Q -> Q -> Q) (w e s n bw be bs bn : Q) (k : nat).
Hypothesis Hk : (2 <= k)%nat.
Hypothesis Hres : project_region_k k f g [w; e; s; n] = Some (bw, be, bs, bn).

Lemma pr_valid : w <= e /\ s <= n.
Proof.
  unfold project_region_k in Hres. destruct (check_region [w; e; s; n]) eqn:C; [|discriminate].
  apply check_region_iff in C as [w' [e' [s' [n' [E H]]]]]. injection E as -> -> -> ->. exact H.
Qed.

Lemma pr_tight :
  let pts := region_nodes w e s n k in
  (forall p, In p pts -> bw <= f (fst p) (snd p) /\ f (fst p) (snd p) <= be /\
                         bs <= g (fst p) (snd p) /\ g (fst p) (snd p) <= bn) /\
  (exists p, In p pts /\ f (fst p) (snd p) = bw) /\ (exists p, In p pts /\ f (fst p) (snd p) = be) /\
  (exists p, In p pts /\ g (fst p) (snd p) = bs) /\ (exists p, In p pts /\ g (fst p) (snd p) = bn).
Proof.
  intros pts. unfold project_region_k in Hres. destruct (check_region [w; e; s; n]); [|discriminate].
  fold pts in Hres. apply get_region_tight in Hres as [He [Hn [Aw [Ae [As An]]]]].
  split.
  - intros p Hp.
    destruct (He (f (fst p) (snd p))) as [? ?]; [apply in_map_iff; exists p; tauto|].
    destruct (Hn (g (fst p) (snd p))) as [? ?]; [apply in_map_iff; exists p; tauto|]. tauto.
  - repeat split;
      match goal with
      | H : In ?v (map _ pts) |- exists p, In p pts /\ _ = ?v =>
          apply in_map_iff in H as [p [E Hp]]; exists p; tauto
      end.
Qed.

(** for ANY projection: the returned box is attained inside the region, so it
    is contained in the bounding box of the projected region *)
Theorem project_region_attained :
  (exists x y, in_box w e s n x y /\ f x y = bw) /\ (exists x y, in_box w e s n x y /\ f x y = be) /\
  (exists x y, in_box w e s n x y /\ g x y = bs) /\ (exists x y, in_box w e s n x y /\ g x y = bn).
Proof.
  destruct pr_valid as [Hwe Hsn]. destruct pr_tight as [_ [[p1 [I1 E1]] [[p2 [I2 E2]] [[p3 [I3 E3]] [p4 [I4 E4]]]]]].
  repeat split;
    [exists (fst p1), (snd p1)|exists (fst p2), (snd p2)|exists (fst p3), (snd p3)|exists (fst p4), (snd p4)];
    (split; [apply (nodes_in_box w e s n k); try assumption;
             match goal with |- In (fst ?p, snd ?p) _ => destruct p; assumption end | assumption]).
Qed.

(** for coordinate-wise monotone projections the box contains the projection of
    EVERY point of the region: with [project_region_attained], it is exactly the
    bounding box of the projected region *)
Theorem project_region_contains :
  cw_monotone f -> cw_monotone g ->
  forall x y, in_box w e s n x y -> bw <= f x y /\ f x y <= be /\ bs <= g x y /\ g x y <= bn.
Proof.
  intros Mf Mg x y Hb. destruct pr_tight as [Hall _].
  assert (bound : forall h, cw_monotone h ->
            forall lo hi, (forall p, In p (region_nodes w e s n k) -> lo <= h (fst p) (snd p) /\ h (fst p) (snd p) <= hi) ->
            lo <= h x y /\ h x y <= hi).
  { intros h Mh lo hi Hp.
    destruct (cw_corners h w e s n x y Mh Hb) as [cx [cy [dx [dy [C1 [C2 [D1 [D2 [L U]]]]]]]]].
    destruct (corner_is_node w e s n k cx cy Hk C1 C2) as [x1 [y1 [I1 [Ex1 Ey1]]]].
    destruct (corner_is_node w e s n k dx dy Hk D1 D2) as [x2 [y2 [I2 [Ex2 Ey2]]]].
    pose proof (Hp _ I1) as [P1 _]. pose proof (Hp _ I2) as [_ P2]. cbn [fst snd] in P1, P2.
    rewrite (cw_compat h Mh _ _ _ _ Ex1 Ey1) in P1. rewrite (cw_compat h Mh _ _ _ _ Ex2 Ey2) in P2.
    split; [apply Qle_trans with (h cx cy)|apply Qle_trans with (h dx dy)]; assumption. }
  destruct (bound f Mf bw be) as [? ?]; [intros p Hp; destruct (Hall p Hp); tauto|].
  destruct (bound g Mg bs bn) as [? ?]; [intros p Hp; destruct (Hall p Hp); tauto|]. tauto.
Qed.
End Box.

(** an invalid region is refused *)
Theorem project_region_rejects f g r : check_region r = false -> project_region f g r = None.
Proof.
  intros C. unfold project_region, project_region_k.
  destruct r as [|w [|e [|s [|n [|]]]]]; try reflexivity. rewrite C. reflexivity.
Qed.

(** and a valid one always yields a box *)
Lemma linspace_nonempty a b k : (1 <= k)%nat -> linspace a b k <> [].
Proof.
  intros Hk E. assert (L := linspace_length a b k). rewrite E in L. cbn in L. lia.
Qed.

Lemma region_nodes_nonempty w e s n k : (1 <= k)%nat -> region_nodes w e s n k <> [].
Proof.
  intros Hk. unfold region_nodes.
  destruct (linspace s n k) as [|y ty] eqn:Ey; [exfalso; apply (linspace_nonempty s n k Hk Ey)|].
  destruct (linspace w e k) as [|x tx] eqn:Ex; [exfalso; apply (linspace_nonempty w e k Hk Ex)|].
  cbn [flat_map map app]. discriminate.
Qed.

Theorem project_region_total f g w e s n : w <= e -> s <= n ->
  exists b, project_region f g [w; e; s; n] = Some b.
Proof.
  intros Hwe Hsn. unfold project_region, project_region_k.
  assert (C: check_region [w; e; s; n] = true) by (apply check_region_iff; exists w, e, s, n; tauto).
  rewrite C.
  destruct (region_nodes w e s n 101) as [|p t] eqn:E.
  - exfalso. apply (region_nodes_nonempty w e s n 101); [lia|exact E].
  - cbn [map get_region]. eexists. reflexivity.
Qed.

(** non-vacuity: the documentation's projection (2x, -y) and a shear are
    coordinate-wise monotone; the documented region gives the documented box *)
Lemma project_region_nv :
  cw_monotone (fun x _ => 2 * x) /\ cw_monotone (fun _ y => - y) /\ cw_monotone (fun x y => x + (1 # 2) * y) /\
  match project_region (fun x _ => 2 * x) (fun _ y => - y) [3; 5; -9; -4] with
  | Some (a, b, c, d) => Qeqb a 6 && Qeqb b 10 && Qeqb c 4 && Qeqb d 9 = true
  | None => False
  end.
Proof.
  split; [|split; [|split]].
  - split; [left; intros x x' y H; cbv beta; lra|left; intros x y y' H; cbv beta; apply Qle_refl].
  - split; [left; intros x x' y H; cbv beta; apply Qle_refl|right; intros x y y' H; cbv beta; lra].
  - split; [left; intros x x' y H; cbv beta; lra|left; intros x y y' H; cbv beta; lra].
  - vm_compute. reflexivity.
Qed.
