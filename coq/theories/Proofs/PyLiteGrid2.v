(** 2-D float arrays ([arr2]: a list of equally long rows) under the exact numpy builtins of Lib/PyLite.v
    that verde.base.utils.n_1d_arrays applies to a meshgrid: np.atleast_1d (= np.array) keeps the array,
    np.ravel gives the rows concatenated (C order).  Used by harness/pylite_blocksplit.v.tmpl (C08). *)
From Coq Require Import ZArith QArith List Bool String Lia Arith.
From Verde Require Import Lib.PyLite Proofs.PyLiteBridge.
Import ListNotations.
Open Scope string_scope.

Lemma forallb_true_in {A} (p : A -> bool) l : (forall x, In x l -> p x = true) -> forallb p l = true.
Proof. intros H. apply forallb_forall. exact H. Qed.

Lemma rect_arr2 rows m : (forall r, In r rows -> List.length r = m) -> rect (arr2 rows) = true.
Proof.
  intros H. unfold arr2. cbn [rect]. apply andb_true_iff. split.
  - apply forallb_true_in. intros v Hv. apply in_map_iff in Hv as [r [<- _]]. apply (rect_arr r).
  - destruct rows as [|r0 t]; [reflexivity|]. cbn [map]. apply forallb_true_in. intros v Hv.
    apply in_map_iff in Hv as [r [<- Hr]].
    change (VA (map VQ r)) with (arr r). change (VA (map VQ r0)) with (arr r0). rewrite !shape_of_arr.
    rewrite (H r (or_intror Hr)), (H r0 (or_introl eq_refl)). cbn [shape_eqb]. rewrite Nat.eqb_refl. reflexivity.
Qed.

Lemma to_array_arr2 cast rows : to_array cast (arr2 rows) = Some (arr2 rows).
Proof.
  unfold arr2. cbn [to_array].
  assert (E : map_opt (to_array cast) (map (fun r => VA (map VQ r)) rows) = Some (map (fun r => VA (map VQ r)) rows)).
  { induction rows as [|r t IH]; [reflexivity|]. cbn [map map_opt].
    change (map VQ r) with (map (fun z : Q => VQ ((fun y : Q => y) z)) r). rewrite to_array_arrQ, IH. reflexivity. }
  rewrite E. reflexivity.
Qed.

Lemma np_array_arr2 rows m : (forall r, In r rows -> List.length r = m) -> np_array (arr2 rows) = Some (arr2 rows).
Proof.
  intros H. unfold np_array. change (arr2 rows) with (VA (map (fun r => VA (map VQ r)) rows)) at 1.
  cbv beta iota. fold (arr2 rows). rewrite (rect_arr2 rows m H). apply to_array_arr2.
Qed.

Lemma flatten_arr2 rows : flatten_arr (arr2 rows) = map VQ (List.concat rows).
Proof.
  unfold arr2. cbn [flatten_arr]. induction rows as [|r t IH]; [reflexivity|].
  cbn [map flat_map List.concat]. rewrite map_app, <- IH. f_equal. apply (flatten_arr_arr r).
Qed.

Lemma call_ravel_arr2 rows m : (forall r, In r rows -> List.length r = m) ->
  call "np.ravel" [arr2 rows] = Some (Some (arr (List.concat rows))).
Proof.
  intros H. destruct rows as [|r0 t]; [reflexivity|].
  assert (R := rect_arr2 (r0 :: t) m H). assert (F := flatten_arr2 (r0 :: t)).
  unfold arr2 in *. cbn [map] in *. cbn -[rect flatten_arr List.concat]. rewrite R, F. reflexivity.
Qed.
