(** Proofs about the convex-hull model (Model/Hull.v). *)
From Coq Require Import QArith Qabs ZArith List Bool Lia Lqa.
From Verde Require Import Lib.Verdict Lib.Dyadic Lib.QExtra Model.Hull.
Import ListNotations.
Open Scope Q_scope.

(** * orientation algebra *)
Lemma orient_swap a b r : orient b a r == - orient a b r.
Proof. unfold orient. ring. Qed.

Lemma orient_self a q : orient a a q == 0.
Proof. unfold orient. ring. Qed.

Lemma orient_pt_eq a b q : pt_eq a b -> orient a b q == 0.
Proof. intros [H1 H2]. unfold orient. rewrite H1, H2. ring. Qed.

Lemma orient_aff sx ox sy oy a b r :
  orient (aff sx ox sy oy a) (aff sx ox sy oy b) (aff sx ox sy oy r) == (sx * sy) * orient a b r.
Proof. unfold orient, aff. cbn [fst snd]. ring. Qed.

(** * scale / offset independence *)
Section Affine.
  Variables sx ox sy oy : Q.
  Let T := aff sx ox sy oy.

  Lemma in_map_T P x : In x (map T P) <-> exists p, In p P /\ x = T p.
  Proof.
    rewrite in_map_iff. split; intros [p [H1 H2]]; exists p; [split; [exact H2|symmetry; exact H1] | split; [symmetry; exact H2|exact H1]].
  Qed.

  Lemma supporting_aff_pos P a b : 0 < sx * sy ->
    (supporting (map T P) (T a) (T b) <-> supporting P a b).
  Proof.
    intros Hk. unfold supporting. split; intros H r Hr.
    - specialize (H (T r) (in_map T P r Hr)). unfold T in H. rewrite orient_aff in H.
      set (o := orient a b r) in *. clearbody o. nra.
    - apply in_map_T in Hr as [p [Hp ->]]. specialize (H p Hp). unfold T. rewrite orient_aff.
      set (o := orient a b p) in *. clearbody o. nra.
  Qed.

  Lemma supporting_aff_neg P a b : sx * sy < 0 ->
    (supporting (map T P) (T a) (T b) <-> supporting P b a).
  Proof.
    intros Hk. unfold supporting. split; intros H r Hr.
    - specialize (H (T r) (in_map T P r Hr)). unfold T in H. rewrite orient_aff in H.
      rewrite orient_swap. set (o := orient a b r) in *. clearbody o. nra.
    - apply in_map_T in Hr as [p [Hp ->]]. specialize (H p Hp). rewrite orient_swap in H.
      unfold T. rewrite orient_aff. set (o := orient a b p) in *. clearbody o. nra.
  Qed.

  (** hull membership does not depend on the scale and offset of either axis
      (reflections included) *)
  Theorem in_hull_affine P q : ~ sx * sy == 0 ->
    (in_hull (map T P) (T q) <-> in_hull P q).
  Proof.
    intros Hk.
    destruct (Qlt_le_dec 0 (sx * sy)) as [Hpos|Hle].
    - unfold in_hull. split; intros H a b Ha Hb Hs.
      + specialize (H (T a) (T b) (in_map T P a Ha) (in_map T P b Hb)).
        rewrite supporting_aff_pos in H by exact Hpos. specialize (H Hs).
        unfold T in H. rewrite orient_aff in H. set (o := orient a b q) in *. clearbody o. nra.
      + apply in_map_T in Ha as [a' [Ha' ->]]. apply in_map_T in Hb as [b' [Hb' ->]].
        rewrite supporting_aff_pos in Hs by exact Hpos. specialize (H a' b' Ha' Hb' Hs).
        unfold T. rewrite orient_aff. set (o := orient a' b' q) in *. clearbody o. nra.
    - assert (Hneg: sx * sy < 0).
      { destruct (Qlt_le_dec (sx * sy) 0) as [L|G]; [exact L|]. exfalso. apply Hk. lra. }
      unfold in_hull. split; intros H a b Ha Hb Hs.
      + specialize (H (T b) (T a) (in_map T P b Hb) (in_map T P a Ha)).
        rewrite supporting_aff_neg in H by exact Hneg. specialize (H Hs).
        unfold T in H. rewrite orient_aff, orient_swap in H.
        set (o := orient a b q) in *. clearbody o. nra.
      + apply in_map_T in Ha as [a' [Ha' ->]]. apply in_map_T in Hb as [b' [Hb' ->]].
        rewrite supporting_aff_neg in Hs by exact Hneg. specialize (H b' a' Hb' Ha' Hs).
        rewrite orient_swap in H.
        unfold T. rewrite orient_aff. set (o := orient a' b' q) in *. clearbody o. nra.
  Qed.

  Lemma pt_eq_aff a b : 0 < sx -> 0 < sy -> (pt_eq (T a) (T b) <-> pt_eq a b).
  Proof.
    intros Hx Hy. unfold pt_eq, T, aff. cbn [fst snd].
    destruct a as [a1 a2], b as [b1 b2]. cbn [fst snd].
    split; intros [H1 H2]; split; nra.
  Qed.

  (** the strict versions, with the margin scaled like an orientation *)
  Theorem strictly_in_hull_affine m P q : 0 < sx -> 0 < sy ->
    (strictly_in_hull (sx * sy * m) (map T P) (T q) <-> strictly_in_hull m P q).
  Proof.
    intros Hx Hy. assert (Hk: 0 < sx * sy) by nra.
    unfold strictly_in_hull. split; intros H a b Ha Hb Hne Hs.
    - specialize (H (T a) (T b) (in_map T P a Ha) (in_map T P b Hb)).
      rewrite pt_eq_aff in H by assumption. rewrite supporting_aff_pos in H by exact Hk.
      specialize (H Hne Hs). unfold T in H. rewrite orient_aff in H.
      set (o := orient a b q) in *. clearbody o. set (k := sx * sy) in *. clearbody k. nra.
    - apply in_map_T in Ha as [a' [Ha' ->]]. apply in_map_T in Hb as [b' [Hb' ->]].
      rewrite pt_eq_aff in Hne by assumption. rewrite supporting_aff_pos in Hs by exact Hk.
      specialize (H a' b' Ha' Hb' Hne Hs). unfold T. rewrite orient_aff.
      set (o := orient a' b' q) in *. clearbody o. set (k := sx * sy) in *. clearbody k. nra.
  Qed.

  Theorem strictly_outside_affine m P q : 0 < sx -> 0 < sy ->
    (strictly_outside (sx * sy * m) (map T P) (T q) <-> strictly_outside m P q).
  Proof.
    intros Hx Hy. assert (Hk: 0 < sx * sy) by nra.
    unfold strictly_outside. split.
    - intros [a [b [Ha [Hb [Hs Ho]]]]].
      apply in_map_T in Ha as [a' [Ha' ->]]. apply in_map_T in Hb as [b' [Hb' ->]].
      rewrite supporting_aff_pos in Hs by exact Hk. exists a', b'. repeat split; try assumption.
      unfold T in Ho. rewrite orient_aff in Ho.
      set (o := orient a' b' q) in *. clearbody o. set (k := sx * sy) in *. clearbody k. nra.
    - intros [a [b [Ha [Hb [Hs Ho]]]]]. exists (T a), (T b).
      split; [apply in_map; exact Ha|]. split; [apply in_map; exact Hb|].
      split; [apply supporting_aff_pos; assumption|].
      unfold T. rewrite orient_aff.
      set (o := orient a b q) in *. clearbody o. set (k := sx * sy) in *. clearbody k. nra.
  Qed.
End Affine.

(** * convex combinations of data points are in the hull *)
Lemma orient_comb a b ws : forall ps, length ws = length ps ->
  orient a b (comb ws ps) == wsum ws (map (orient a b) ps) + (1 - Qsum ws) * orient a b (0, 0).
Proof.
  induction ws as [|w ws IH]; intros [|p ps] Hl; try discriminate.
  - cbn. ring.
  - cbn [comb wsum map Qsum]. injection Hl as Hl. specialize (IH ps Hl).
    unfold orient in *. cbn [fst snd] in *.
    set (c := comb ws ps) in *. clearbody c. destruct c as [c1 c2]. cbn [fst snd] in *.
    set (W := wsum ws _) in *. clearbody W. set (S := Qsum ws) in *. clearbody S.
    lra.
Qed.

Lemma wsum_nonneg ws : forall vs, (forall w, In w ws -> 0 <= w) -> (forall v, In v vs -> 0 <= v) ->
  0 <= wsum ws vs.
Proof.
  induction ws as [|w ws IH]; intros [|v vs] Hw Hv; cbn [wsum]; try lra.
  assert (0 <= w) by (apply Hw; left; reflexivity).
  assert (0 <= v) by (apply Hv; left; reflexivity).
  assert (0 <= wsum ws vs) by (apply IH; intros; [apply Hw|apply Hv]; right; assumption).
  nra.
Qed.

Theorem data_point_in_hull P p : In p P -> in_hull P p.
Proof. intros Hp a b _ _ Hs. apply Hs. exact Hp. Qed.

(** every convex combination of points of the hull - in particular of data
    points - is in the hull *)
Theorem convex_comb_in_hull P ws ps :
  length ws = length ps -> (forall w, In w ws -> 0 <= w) -> Qsum ws == 1 ->
  (forall p, In p ps -> in_hull P p) -> in_hull P (comb ws ps).
Proof.
  intros Hl Hw Hs Hp a b Ha Hb Hsup.
  rewrite (orient_comb a b ws ps Hl), Hs.
  assert (0 <= wsum ws (map (orient a b) ps)).
  { apply wsum_nonneg; [exact Hw|]. intros v Hv. apply in_map_iff in Hv as [p [<- Hin]].
    apply (Hp p Hin a b Ha Hb Hsup). }
  lra.
Qed.

Corollary convex_comb_data_in_hull P ws ps :
  length ws = length ps -> (forall w, In w ws -> 0 <= w) -> Qsum ws == 1 ->
  incl ps P -> in_hull P (comb ws ps).
Proof.
  intros Hl Hw Hs Hi. apply convex_comb_in_hull; try assumption.
  intros p Hp. apply data_point_in_hull. apply Hi. exact Hp.
Qed.

Corollary segment_in_hull P p q t : in_hull P p -> in_hull P q -> 0 <= t -> t <= 1 ->
  in_hull P (t * fst p + (1 - t) * fst q, t * snd p + (1 - t) * snd q).
Proof.
  intros Hp Hq H0 H1 a b Ha Hb Hs.
  specialize (Hp a b Ha Hb Hs). specialize (Hq a b Ha Hb Hs).
  assert (E: orient a b (t * fst p + (1 - t) * fst q, t * snd p + (1 - t) * snd q)
             == t * orient a b p + (1 - t) * orient a b q) by (unfold orient; cbn [fst snd]; ring).
  rewrite E. nra.
Qed.

(** * the three classes *)
Lemma pt_eq_dec a b : {pt_eq a b} + {~ pt_eq a b}.
Proof.
  unfold pt_eq. destruct (Qeq_dec (fst a) (fst b)) as [H1|H1]; [|right; tauto].
  destruct (Qeq_dec (snd a) (snd b)) as [H2|H2]; [left; tauto|right; tauto].
Qed.

Theorem strictly_in_hull_in m P q : 0 <= m -> strictly_in_hull m P q -> in_hull P q.
Proof.
  intros Hm H a b Ha Hb Hs. destruct (pt_eq_dec a b) as [E|NE].
  - rewrite (orient_pt_eq a b q E). lra.
  - specialize (H a b Ha Hb NE Hs). lra.
Qed.

Theorem strictly_outside_not_in m P q : 0 <= m -> strictly_outside m P q -> ~ in_hull P q.
Proof.
  intros Hm [a [b [Ha [Hb [Hs Ho]]]]] H. specialize (H a b Ha Hb Hs). lra.
Qed.

Theorem strict_margin_monotone m m' P q : m <= m' ->
  (strictly_in_hull m' P q -> strictly_in_hull m P q) /\
  (strictly_outside m' P q -> strictly_outside m P q).
Proof.
  intros Hm. split.
  - intros H a b Ha Hb NE Hs. specialize (H a b Ha Hb NE Hs). lra.
  - intros [a [b [Ha [Hb [Hs Ho]]]]]. exists a, b. repeat split; try assumption. lra.
Qed.

(** only the set of data points matters (order, repetitions are irrelevant) *)
Theorem in_hull_ext P P' q : (forall x, In x P <-> In x P') -> (in_hull P q <-> in_hull P' q).
Proof.
  intros He. unfold in_hull, supporting. split; intros H a b Ha Hb Hs.
  - apply H; [apply He; exact Ha|apply He; exact Hb|]. intros r Hr. apply Hs. apply He. exact Hr.
  - apply H; [apply He; exact Ha|apply He; exact Hb|]. intros r Hr. apply Hs. apply He. exact Hr.
Qed.

(** * the executable model decides the specification on lattice points *)
Definition inj (p : zpt) : pt := (inject_Z (fst p), inject_Z (snd p)).

Lemma orient_inj a b r : orient (inj a) (inj b) (inj r) == inject_Z (orientZ a b r).
Proof.
  unfold orient, orientZ, inj. cbn [fst snd]. unfold Z.sub.
  repeat first [rewrite inject_Z_plus | rewrite inject_Z_mult | rewrite inject_Z_opp]. ring.
Qed.

Lemma inject_Z_le0 z : (0 <= z)%Z <-> 0 <= inject_Z z.
Proof. change 0 with (inject_Z 0). rewrite <- Zle_Qle. reflexivity. Qed.
Lemma inj_le0_1 z : (0 <= z)%Z -> 0 <= inject_Z z.
Proof. apply inject_Z_le0. Qed.
Lemma inj_le0_2 z : 0 <= inject_Z z -> (0 <= z)%Z.
Proof. apply inject_Z_le0. Qed.

Lemma all_sc_spec {A} (f : A -> bool) l : all_sc f l = true <-> forall x, In x l -> f x = true.
Proof.
  induction l as [|x t IH]; cbn [all_sc].
  - split; [intros _ x []|reflexivity].
  - destruct (f x) eqn:E.
    + rewrite IH. split; [intros H y [<-|Hy]; [exact E|apply H; exact Hy]|intros H y Hy; apply H; right; exact Hy].
    + split; [discriminate|]. intros H. rewrite <- E. apply H. left. reflexivity.
Qed.

Lemma any_sc_spec {A} (f : A -> bool) l : any_sc f l = true <-> exists x, In x l /\ f x = true.
Proof.
  induction l as [|x t IH]; cbn [any_sc].
  - split; [discriminate|intros [x [[] _]]].
  - destruct (f x) eqn:E.
    + split; [intros _; exists x; split; [left; reflexivity|exact E]|reflexivity].
    + rewrite IH. split; intros [y [Hy Hf]]; exists y.
      * split; [right; exact Hy|exact Hf].
      * destruct Hy as [<-|Hy]; [congruence|]. split; assumption.
Qed.

Lemma pick_in better P x : In x (pick better P) -> In x P.
Proof.
  destruct P as [|d t]; cbn [pick]; [intros []|]. intros [<-|[]].
  induction t as [|p t IH]; cbn [fold_right].
  - left. reflexivity.
  - destruct (better p _).
    + right. left. reflexivity.
    + destruct IH as [IH|IH]; [left; exact IH|right; right; exact IH].
Qed.

Lemma probes_in P x : In x (probes P) -> In x P.
Proof.
  unfold probes. rewrite !in_app_iff. intros [H|[H|[H|H]]]; eapply pick_in; exact H.
Qed.

Lemma supportingb_spec P a b :
  supportingb P a b = true <-> supporting (map inj P) (inj a) (inj b).
Proof.
  unfold supportingb, supporting. rewrite all_sc_spec. split.
  - intros H r Hr. apply in_map_iff in Hr as [p [<- Hp]].
    rewrite orient_inj. apply inj_le0_1. apply Z.leb_le. apply H. apply in_app_iff. right. exact Hp.
  - intros H r Hr. apply Z.leb_le. apply inj_le0_2. rewrite <- orient_inj. apply H.
    apply in_map. apply in_app_iff in Hr as [Hr|Hr]; [apply probes_in; exact Hr|exact Hr].
Qed.

Lemma zpt_eqb_eq a b : zpt_eqb a b = true <-> a = b.
Proof.
  unfold zpt_eqb. rewrite andb_true_iff, !Z.eqb_eq. destruct a, b; cbn [fst snd]. split; [intros [-> ->]; reflexivity|intros E; injection E; auto].
Qed.

Lemma pt_eq_inj a b : pt_eq (inj a) (inj b) <-> a = b.
Proof.
  unfold pt_eq, inj. cbn [fst snd]. rewrite !inject_Z_injective. destruct a, b; cbn [fst snd].
  split; [intros [-> ->]; reflexivity|intros E; injection E; auto].
Qed.

Lemma edges_spec P a b :
  In (a, b) (edges P) <-> In a P /\ In b P /\ a <> b /\ supportingb P a b = true.
Proof.
  unfold edges. rewrite in_flat_map. split.
  - intros [a' [Ha H]]. apply in_flat_map in H as [b' [Hb H]].
    destruct (zpt_eqb a' b') eqn:E; [destruct H|].
    destruct (supportingb P a' b') eqn:S; [|destruct H].
    destruct H as [H|[]]. injection H as <- <-. repeat split; try assumption.
    intros C. apply zpt_eqb_eq in C. congruence.
  - intros [Ha [Hb [Hne Hs]]]. exists a. split; [exact Ha|]. apply in_flat_map. exists b. split; [exact Hb|].
    destruct (zpt_eqb a b) eqn:E; [apply zpt_eqb_eq in E; contradiction|]. rewrite Hs. left. reflexivity.
Qed.

Lemma fold_min_spec (g : zpt * zpt -> Z) t : forall v0,
  let r := fold_left (fun v cd => Z.min v (g cd)) t v0 in
  (r <= v0)%Z /\ (forall cd, In cd t -> (r <= g cd)%Z) /\ (r = v0 \/ exists cd, In cd t /\ r = g cd).
Proof.
  induction t as [|x t IH]; intros v0; cbn [fold_left].
  - split; [lia|]. split; [intros cd []|left; reflexivity].
  - specialize (IH (Z.min v0 (g x))). cbn zeta in IH.
    set (r := fold_left _ t (Z.min v0 (g x))) in *. clearbody r. destruct IH as [I1 [I2 I3]].
    split; [lia|]. split.
    + intros cd [<-|H]; [lia|apply I2; exact H].
    + destruct I3 as [I3|[cd [Hc I3]]].
      * destruct (Z.min_spec v0 (g x)) as [[_ E]|[_ E]]; rewrite E in I3.
        -- left. exact I3.
        -- right. exists x. split; [left; reflexivity|exact I3].
      * right. exists cd. split; [right; exact Hc|exact I3].
Qed.

Lemma min_orient_spec E q :
  match min_orient E q with
  | None => E = []
  | Some v => (forall ab, In ab E -> (v <= orientZ (fst ab) (snd ab) q)%Z) /\
              (exists ab, In ab E /\ v = orientZ (fst ab) (snd ab) q)
  end.
Proof.
  destruct E as [|ab t]; cbn [min_orient]; [reflexivity|].
  pose proof (fold_min_spec (fun cd => orientZ (fst cd) (snd cd) q) t (orientZ (fst ab) (snd ab) q)) as H.
  cbn zeta in H. destruct H as [H1 [H2 H3]]. split.
  - intros cd [<-|Hc]; [exact H1|apply H2; exact Hc].
  - destruct H3 as [H3|[cd [Hc H3]]].
    + exists ab. split; [left; reflexivity|exact H3].
    + exists cd. split; [right; exact Hc|exact H3].
Qed.

Lemma in_hull_edges_spec E q :
  in_hull_edges E q = true <-> forall ab, In ab E -> (0 <= orientZ (fst ab) (snd ab) q)%Z.
Proof.
  unfold in_hull_edges, mo_in. pose proof (min_orient_spec E q) as H.
  destruct (min_orient E q) as [v|].
  - destruct H as [H1 [ab [Hab H2]]]. rewrite Z.leb_le. split.
    + intros Hv cd Hc. specialize (H1 cd Hc). lia.
    + intros Hall. specialize (Hall ab Hab). lia.
  - subst E. split; [intros _ ab []|reflexivity].
Qed.

Lemma strictly_in_edges_spec m E q :
  strictly_in_edges m E q = true <-> forall ab, In ab E -> (m < orientZ (fst ab) (snd ab) q)%Z.
Proof.
  unfold strictly_in_edges, mo_sin. pose proof (min_orient_spec E q) as H.
  destruct (min_orient E q) as [v|].
  - destruct H as [H1 [ab [Hab H2]]]. rewrite Z.ltb_lt. split.
    + intros Hv cd Hc. specialize (H1 cd Hc). lia.
    + intros Hall. specialize (Hall ab Hab). lia.
  - subst E. split; [intros _ ab []|reflexivity].
Qed.

Lemma strictly_out_edges_spec m E q :
  strictly_out_edges m E q = true <-> exists ab, In ab E /\ (orientZ (fst ab) (snd ab) q < - m)%Z.
Proof.
  unfold strictly_out_edges, mo_sout. pose proof (min_orient_spec E q) as H.
  destruct (min_orient E q) as [v|].
  - destruct H as [H1 [ab [Hab H2]]]. rewrite Z.ltb_lt. split.
    + intros Hv. exists ab. split; [exact Hab|lia].
    + intros [cd [Hc Hlt]]. specialize (H1 cd Hc). lia.
  - subst E. split; [discriminate|intros [ab [[] _]]].
Qed.

(** the executable hull test is the specification on the embedded lattice points *)
Theorem in_hullb_spec P q : in_hullb P q = true <-> in_hull (map inj P) (inj q).
Proof.
  unfold in_hullb. rewrite in_hull_edges_spec. unfold in_hull. split.
  - intros H a b Ha Hb Hs.
    apply in_map_iff in Ha as [a' [<- Ha']]. apply in_map_iff in Hb as [b' [<- Hb']].
    destruct (zpt_eqb a' b') eqn:E.
    + apply zpt_eqb_eq in E. subst b'. rewrite orient_self. lra.
    + rewrite orient_inj. apply inj_le0_1.
      apply (H (a', b')). apply edges_spec. repeat split; try assumption.
      * intros C. apply zpt_eqb_eq in C. congruence.
      * apply supportingb_spec. exact Hs.
  - intros H [a b] Hab. cbn [fst snd]. apply edges_spec in Hab as [Ha [Hb [_ Hs]]].
    apply inj_le0_2. rewrite <- orient_inj.
    apply H; [apply in_map; exact Ha|apply in_map; exact Hb|apply supportingb_spec; exact Hs].
Qed.

Theorem strictly_inb_spec m P q :
  strictly_in_edges m (edges P) q = true <-> strictly_in_hull (inject_Z m) (map inj P) (inj q).
Proof.
  rewrite strictly_in_edges_spec. unfold strictly_in_hull. split.
  - intros H a b Ha Hb Hne Hs.
    apply in_map_iff in Ha as [a' [<- Ha']]. apply in_map_iff in Hb as [b' [<- Hb']].
    rewrite orient_inj. rewrite <- Zlt_Qlt.
    apply (H (a', b')). apply edges_spec. repeat split; try assumption.
    + intros C. apply Hne. apply pt_eq_inj. exact C.
    + apply supportingb_spec. exact Hs.
  - intros H [a b] Hab. cbn [fst snd]. apply edges_spec in Hab as [Ha [Hb [Hne Hs]]].
    rewrite Zlt_Qlt. rewrite <- orient_inj.
    apply H; [apply in_map; exact Ha|apply in_map; exact Hb| |apply supportingb_spec; exact Hs].
    intros C. apply pt_eq_inj in C. contradiction.
Qed.

Theorem strictly_outb_spec m P q : (0 <= m)%Z ->
  (strictly_out_edges m (edges P) q = true <-> strictly_outside (inject_Z m) (map inj P) (inj q)).
Proof.
  intros Hm. rewrite strictly_out_edges_spec. unfold strictly_outside. split.
  - intros [[a b] [Hab Hlt]]. cbn [fst snd] in Hlt. apply edges_spec in Hab as [Ha [Hb [_ Hs]]].
    exists (inj a), (inj b). split; [apply in_map; exact Ha|]. split; [apply in_map; exact Hb|].
    split; [apply supportingb_spec; exact Hs|].
    rewrite orient_inj, <- inject_Z_opp, <- Zlt_Qlt. exact Hlt.
  - intros [a [b [Ha [Hb [Hs Hlt]]]]].
    apply in_map_iff in Ha as [a' [<- Ha']]. apply in_map_iff in Hb as [b' [<- Hb']].
    rewrite orient_inj, <- inject_Z_opp, <- Zlt_Qlt in Hlt.
    exists (a', b'). cbn [fst snd]. split; [|exact Hlt].
    apply edges_spec. repeat split; try assumption.
    + intros ->. unfold orientZ in Hlt. lia.
    + apply supportingb_spec. exact Hs.
Qed.

(** every lattice point is decisively inside, decisively outside, or within
    the margin of the boundary; the first two exclude each other *)
Theorem classify_spec m P q : (0 <= m)%Z ->
  match classify m (edges P) q with
  | Some true => strictly_in_hull (inject_Z m) (map inj P) (inj q) /\ in_hull (map inj P) (inj q)
  | Some false => strictly_outside (inject_Z m) (map inj P) (inj q) /\ ~ in_hull (map inj P) (inj q)
  | None => ~ strictly_in_hull (inject_Z m) (map inj P) (inj q) /\
            ~ strictly_outside (inject_Z m) (map inj P) (inj q)
  end.
Proof.
  intros Hm. unfold classify, mo_classify.
  change (mo_sout m (min_orient (edges P) q)) with (strictly_out_edges m (edges P) q).
  change (mo_sin m (min_orient (edges P) q)) with (strictly_in_edges m (edges P) q).
  assert (Hq: 0 <= inject_Z m) by (apply inj_le0_1; exact Hm).
  destruct (strictly_out_edges m (edges P) q) eqn:Eo.
  - apply strictly_outb_spec in Eo; [|exact Hm]. split; [exact Eo|].
    eapply strictly_outside_not_in; eassumption.
  - destruct (strictly_in_edges m (edges P) q) eqn:Ei.
    + apply strictly_inb_spec in Ei. split; [exact Ei|]. eapply strictly_in_hull_in; eassumption.
    + split.
      * intros C. apply strictly_inb_spec in C. congruence.
      * intros C. apply strictly_outb_spec in C; [congruence|exact Hm].
Qed.

(** with margin 0 the undecided points are exactly the boundary: in the hull
    but on some supporting line *)
Theorem classify_boundary P q : classify 0 (edges P) q = None ->
  in_hull (map inj P) (inj q) /\ ~ strictly_in_hull 0 (map inj P) (inj q).
Proof.
  intros H. pose proof (classify_spec 0 P q ltac:(lia)) as S. rewrite H in S.
  destruct S as [S1 S2]. split; [|exact S1].
  apply in_hullb_spec. unfold in_hullb. apply in_hull_edges_spec. intros ab Hab.
  destruct (Z_lt_ge_dec (orientZ (fst ab) (snd ab) q) 0) as [L|G]; [|lia].
  exfalso. apply S2. apply (strictly_outb_spec 0 P q ltac:(lia)).
  apply strictly_out_edges_spec. exists ab. split; [exact Hab|lia].
Qed.

(** * doubles on a common lattice *)
Lemma emin_list_le l d : In d l -> (emin_list l <= snd d)%Z.
Proof.
  induction l as [|x t IH]; [intros []|]. cbn [emin_list fold_right].
  intros [<-|H]; [lia|]. specialize (IH H). unfold emin_list in IH. lia.
Qed.

Lemma lat_correct e d : (e <= snd d)%Z -> inject_Z (lat e d) * pow2 e == D2Q d.
Proof.
  intros H. unfold lat, D2Q. rewrite inject_Z_mult. rewrite pow2_Z by lia.
  replace (snd d) with ((snd d - e) + e)%Z at 2 by lia. rewrite pow2_add. ring.
Qed.

(** the hull test made on lattice coordinates is the hull test on the doubles'
    exact values: the lattice is the image of an axis-aligned scaling by 2^e > 0 *)
Theorem lattice_hull_is_dyadic_hull e (P : list zpt) (q : zpt) :
  let S := aff (pow2 e) 0 (pow2 e) 0 in
  in_hullb P q = true <-> in_hull (map S (map inj P)) (S (inj q)).
Proof.
  cbn zeta. rewrite in_hull_affine; [apply in_hullb_spec|].
  pose proof (pow2_pos e) as Hp. intros C. nra.
Qed.

(** * array form and grid form *)
Lemma mask_grid_length P east north :
  length (mask_grid P east north) = length north /\
  forall r, In r (mask_grid P east north) -> length r = length east.
Proof.
  unfold mask_grid. split; [apply map_length|].
  intros r Hr. apply in_map_iff in Hr as [y [<- _]]. apply map_length.
Qed.

Lemma mask_grid_nth P east north i j : (i < length north)%nat -> (j < length east)%nat ->
  nth j (nth i (mask_grid P east north) []) false = in_hullb P (nth j east 0%Z, nth i north 0%Z).
Proof.
  intros Hi Hj. unfold mask_grid, in_hullb.
  rewrite (nth_indep _ [] (map (fun x => in_hull_edges (edges P) (x, 0%Z)) east)) by (rewrite map_length; exact Hi).
  rewrite (map_nth (fun y => map (fun x => in_hull_edges (edges P) (x, y)) east) north 0%Z i).
  rewrite (nth_indep _ false (in_hull_edges (edges P) (0%Z, nth i north 0%Z))) by (rewrite map_length; exact Hj).
  rewrite (map_nth (fun x => in_hull_edges (edges P) (x, nth i north 0%Z)) east 0%Z j). reflexivity.
Qed.

Lemma combine_const_r {A B} (l : list A) (y : B) :
  combine l (map (fun _ => y) l) = map (fun x => (x, y)) l.
Proof. induction l as [|x t IH]; cbn; [reflexivity|rewrite IH; reflexivity]. Qed.

Lemma combine_app_eq {A B} (l1 : list A) : forall (l2 : list B) l1' l2', length l1 = length l2 ->
  combine (l1 ++ l1') (l2 ++ l2') = combine l1 l2 ++ combine l1' l2'.
Proof.
  induction l1 as [|x t IH]; intros [|y t2] l1' l2' H; try discriminate; cbn; [reflexivity|].
  injection H as H. rewrite IH by exact H. reflexivity.
Qed.

(** the mask of the grid form (cell (i, j) <-> (east[j], north[i])) is the mask of
    the array form on the meshgrid of the two coordinate vectors, row by row *)
Theorem mask_forms_agree P east north :
  mask_array P (concat (mesh_e east north)) (concat (mesh_n east north)) = concat (mask_grid P east north).
Proof.
  unfold mask_array, mask_grid, mesh_e, mesh_n.
  induction north as [|y t IH]; cbn [map concat]; [reflexivity|].
  assert (Hlen: length east = length (map (fun _ : Z => y) east)) by (rewrite map_length; reflexivity).
  rewrite (combine_app_eq east _ _ _ Hlen), map_app.
  f_equal; [rewrite combine_const_r, map_map; reflexivity|exact IH].
Qed.

(** * ranges: convex combinations and block means *)
Lemma wsum_bounds lo hi ws : forall vs, length ws = length vs ->
  (forall w, In w ws -> 0 <= w) -> (forall v, In v vs -> lo <= v /\ v <= hi) ->
  lo * Qsum ws <= wsum ws vs /\ wsum ws vs <= hi * Qsum ws.
Proof.
  induction ws as [|w ws IH]; intros [|v vs] Hl Hw Hv; try discriminate; cbn [wsum Qsum].
  - lra.
  - injection Hl as Hl.
    assert (0 <= w) by (apply Hw; left; reflexivity).
    assert (lo <= v /\ v <= hi) as [? ?] by (apply Hv; left; reflexivity).
    destruct (IH vs Hl) as [I1 I2]; [intros; apply Hw; right; assumption|intros; apply Hv; right; assumption|].
    set (S := Qsum ws) in *. clearbody S. set (W := wsum ws vs) in *. clearbody W. nra.
Qed.

(** a weighted mean with non-negative weights summing to one lies in the range of its inputs *)
Theorem convex_comb_in_range lo hi ws vs : length ws = length vs ->
  (forall w, In w ws -> 0 <= w) -> Qsum ws == 1 -> (forall v, In v vs -> lo <= v /\ v <= hi) ->
  lo <= wsum ws vs /\ wsum ws vs <= hi.
Proof.
  intros Hl Hw Hs Hv. destruct (wsum_bounds lo hi ws vs Hl Hw Hv) as [H1 H2].
  rewrite Hs in H1, H2. lra.
Qed.

Lemma Qsum_bounds lo hi vs : (forall v, In v vs -> lo <= v /\ v <= hi) ->
  lo * inject_Z (Z.of_nat (length vs)) <= Qsum vs /\ Qsum vs <= hi * inject_Z (Z.of_nat (length vs)).
Proof.
  induction vs as [|v vs IH]; intros Hv.
  - cbn [length Qsum]. change (inject_Z (Z.of_nat 0)) with 0. lra.
  - cbn [Qsum length]. rewrite Nat2Z.inj_succ. unfold Z.succ. rewrite inject_Z_plus.
    change (inject_Z 1) with 1.
    assert (lo <= v /\ v <= hi) as [? ?] by (apply Hv; left; reflexivity).
    destruct IH as [I1 I2]; [intros; apply Hv; right; assumption|].
    set (k := inject_Z (Z.of_nat (length vs))) in *. clearbody k.
    set (S := Qsum vs) in *. clearbody S. split; nra.
Qed.

(** a block mean lies in the range of the block's values *)
Theorem mean_in_range lo hi vs : vs <> [] -> (forall v, In v vs -> lo <= v /\ v <= hi) ->
  lo <= mean vs /\ mean vs <= hi.
Proof.
  intros Hne Hv. destruct (Qsum_bounds lo hi vs Hv) as [H1 H2]. unfold mean.
  assert (Hk: 0 < inject_Z (Z.of_nat (length vs))).
  { change 0 with (inject_Z 0). rewrite <- Zlt_Qlt. destruct vs; [contradiction|cbn [length]; lia]. }
  set (k := inject_Z (Z.of_nat (length vs))) in *. clearbody k.
  set (S := Qsum vs) in *. clearbody S.
  split.
  - apply Qle_shift_div_l; [exact Hk|lra].
  - apply Qle_shift_div_r; [exact Hk|lra].
Qed.

(** antialiasing followed by a convex interpolator (nearest neighbour: one
    weight 1; linear: barycentric weights of the enclosing triangle) keeps every
    output within the range of the input values *)
Theorem antialias_range lo hi (blocks : list (list Q)) ws :
  (forall b, In b blocks -> b <> [] /\ forall v, In v b -> lo <= v /\ v <= hi) ->
  length ws = length blocks -> (forall w, In w ws -> 0 <= w) -> Qsum ws == 1 ->
  lo <= wsum ws (map mean blocks) /\ wsum ws (map mean blocks) <= hi.
Proof.
  intros Hb Hl Hw Hs. apply convex_comb_in_range; try assumption.
  - rewrite map_length. exact Hl.
  - intros v Hv. apply in_map_iff in Hv as [b [<- Hin]]. destruct (Hb b Hin) as [Hne Hr].
    apply mean_in_range; assumption.
Qed.
