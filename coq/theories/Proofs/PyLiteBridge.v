(** Bridging lemmas between PyLite's exact rationals and models that compute on
    scaled integers (Model/Longitude.v: angles in units of 1/s degree) or on
    naturals (Model/CrossVal.v).  Used by the per-run generated files
    harness/pylite_*.v.tmpl; compiled once with the library.

    [Scaled s x z] says that the rational [x] is [z] units of [1/s]:
    [x == z # s].  The instances follow the syntax of the rational
    expressions PyLite builds, so that [typeclasses eauto] computes the integer
    counterpart of such an expression, and the [*_scaled] lemmas turn the
    comparisons on rationals into comparisons on integers. *)
From Coq Require Import QArith Qround Qabs ZArith List Bool Lia Lqa Morphisms.
From Verde Require Import Lib.QExtra Lib.PyLite.
Import ListNotations.

Global Instance Qleb_proper : Proper (Qeq ==> Qeq ==> eq) Qleb.
Proof. intros a b H c d H'. unfold Qleb. rewrite H, H'. reflexivity. Qed.
Global Instance Qltb_proper : Proper (Qeq ==> Qeq ==> eq) Qltb.
Proof. intros a b H c d H'. unfold Qltb. rewrite H, H'. reflexivity. Qed.
Global Instance Qeqb_proper : Proper (Qeq ==> Qeq ==> eq) Qeqb.
Proof. intros a b H c d H'. unfold Qeqb. rewrite H, H'. reflexivity. Qed.

Global Instance qmod_proper : Proper (Qeq ==> Qeq ==> Qeq) qmod.
Proof.
  intros a b H c d H'. unfold qmod.
  assert (F : Qfloor (a / c) = Qfloor (b / d)) by (apply Qfloor_comp; rewrite H, H'; reflexivity).
  rewrite F, H, H'. reflexivity.
Qed.

Lemma Qmake_as_div (z : Z) (s : positive) : z # s == inject_Z z / inject_Z (Zpos s).
Proof. apply Qmake_Qdiv. Qed.

(** the float modulo of a scaled integer by a positive integer constant *)
Lemma qmod_scaled_int (z : Z) (s m : positive) :
  qmod (z # s) (inject_Z (Zpos m)) == (z mod (Zpos m * Zpos s)) # s.
Proof.
  unfold qmod.
  assert (F : Qfloor ((z # s) / inject_Z (Zpos m)) = (z / (Zpos m * Zpos s))%Z).
  { unfold Qdiv, Qinv, Qmult, Qfloor, inject_Z. cbn [Qnum Qden].
    rewrite Z.mul_1_r, Pos2Z.inj_mul, (Z.mul_comm (Zpos s)). reflexivity. }
  rewrite F. rewrite (Z.mod_eq z (Zpos m * Zpos s)) by lia.
  set (k := (z / (Zpos m * Zpos s))%Z).
  unfold Qeq, Qminus, Qplus, Qmult, Qopp, inject_Z. cbn [Qnum Qden].
  rewrite !Pos2Z.inj_mul. ring.
Qed.

Lemma Qeqb_pos_0 p : Qeqb (inject_Z (Zpos p)) 0 = false.
Proof. reflexivity. Qed.

Class Scaled (s : positive) (x : Q) (z : Z) : Prop := scaled_eq : x == z # s.

Section Scaled.
Variable s : positive.
Let S := Zpos s.

Global Instance scaled_base z : Scaled s (z # s) z | 0.
Proof. red. reflexivity. Qed.

Global Instance scaled_int k : Scaled s (inject_Z k) (k * Zpos s) | 5.
Proof. red. unfold Qeq, inject_Z. cbn [Qnum Qden]. ring. Qed.

Global Instance scaled_zero : Scaled s (inject_Z 0) 0 | 1.
Proof. red. unfold Qeq, inject_Z. cbn [Qnum Qden]. ring. Qed.

Global Instance scaled_add x y a b : Scaled s x a -> Scaled s y b -> Scaled s (x + y) (a + b).
Proof.
  unfold Scaled. intros Hx Hy. rewrite Hx, Hy. unfold Qeq, Qplus. cbn [Qnum Qden].
  rewrite !Pos2Z.inj_mul. ring.
Qed.

Global Instance scaled_sub x y a b : Scaled s x a -> Scaled s y b -> Scaled s (x - y) (a - b).
Proof.
  unfold Scaled. intros Hx Hy. rewrite Hx, Hy. unfold Qeq, Qminus, Qplus, Qopp. cbn [Qnum Qden].
  rewrite !Pos2Z.inj_mul. ring.
Qed.

Global Instance scaled_opp x a : Scaled s x a -> Scaled s (- x) (- a).
Proof. unfold Scaled. intros Hx. rewrite Hx. reflexivity. Qed.

Global Instance scaled_abs x a : Scaled s x a -> Scaled s (Qabs x) (Z.abs a).
Proof. unfold Scaled. intros Hx. rewrite Hx. reflexivity. Qed.

Global Instance scaled_mod x a m : Scaled s x a -> Scaled s (qmod x (inject_Z (Zpos m))) (a mod (Zpos m * Zpos s)).
Proof. unfold Scaled. intros Hx. rewrite Hx. apply qmod_scaled_int. Qed.

Lemma Qcompare_scaled x y a b : Scaled s x a -> Scaled s y b -> (x ?= y) = (a ?= b)%Z.
Proof.
  unfold Scaled. intros Hx Hy. rewrite Hx, Hy. unfold Qcompare. cbn [Qnum Qden].
  symmetry. apply Zmult_compare_compat_r. reflexivity.
Qed.

Lemma Qeqb_scaled x y a b : Scaled s x a -> Scaled s y b -> Qeqb x y = (a =? b)%Z.
Proof.
  intros Hx Hy. unfold Qeqb. rewrite (Qcompare_scaled x y a b Hx Hy).
  destruct (Z.eqb_spec a b) as [E|E]; [subst; rewrite Z.compare_refl; reflexivity|].
  destruct (Z.compare_spec a b); try reflexivity; contradiction.
Qed.

Lemma Qltb_scaled x y a b : Scaled s x a -> Scaled s y b -> Qltb x y = (a <? b)%Z.
Proof.
  intros Hx Hy. unfold Qltb, Z.ltb. rewrite (Qcompare_scaled x y a b Hx Hy). reflexivity.
Qed.

Lemma Qleb_scaled x y a b : Scaled s x a -> Scaled s y b -> Qleb x y = (a <=? b)%Z.
Proof.
  intros Hx Hy. unfold Qleb, Z.leb. rewrite (Qcompare_scaled x y a b Hx Hy). reflexivity.
Qed.
End Scaled.

(** turn every comparison of scaled rationals in the goal into the integer comparison *)
Ltac q2z s :=
  repeat match goal with
         | |- context [Qeqb ?x ?y] => erewrite (Qeqb_scaled s x y) by typeclasses eauto
         | |- context [Qltb ?x ?y] => erewrite (Qltb_scaled s x y) by typeclasses eauto
         | |- context [Qleb ?x ?y] => erewrite (Qleb_scaled s x y) by typeclasses eauto
         end.

(** * Arrays of naturals (Model/CrossVal.v computes on [list nat]) *)
From Verde Require Import Model.CrossVal Proofs.CrossValProofs.

Definition vnat (n : nat) : val := VZ (Z.of_nat n).
Definition arrN (l : list nat) : val := VA (map vnat l).

(** reading an int array as naturals ([None] if an entry is negative or not an int) *)
Definition unN (l : list val) : option (list nat) :=
  map_opt (fun v => match v with
                    | VZ z => if (0 <=? z)%Z then Some (Z.to_nat z) else None
                    | _ => None end) l.

Fixpoint nondecb (l : list nat) : bool :=
  match l with
  | x :: (y :: _) as t => (x <=? y)%nat && nondecb t
  | _ => true
  end.

Lemma unN_vnat l : unN (map vnat l) = Some l.
Proof.
  unfold unN. induction l as [|x t IH]; cbn; [reflexivity|].
  cbn in IH. rewrite IH. destruct (Z.leb_spec 0 (Z.of_nat x)); [|lia]. rewrite Nat2Z.id. reflexivity.
Qed.

Lemma all_scalar_vnat l : all_scalar (map vnat l) = true.
Proof. unfold all_scalar. induction l; cbn; auto. Qed.

Lemma map_opt_map_some {A B C} (f : B -> option C) (g : A -> B) (h : A -> C) l :
  (forall x, f (g x) = Some (h x)) -> map_opt f (map g l) = Some (map h l).
Proof. intros H. induction l as [|x t IH]; cbn; [reflexivity|]. rewrite H, IH. reflexivity. Qed.

Lemma np_array_vnat l : np_array (VA (map vnat l)) = Some (VA (map vnat l)).
Proof.
  unfold np_array.
  assert (R : rect (VA (map vnat l)) = true).
  { cbn. apply andb_true_intro. split.
    - induction l; cbn; auto.
    - destruct l as [|x t]; cbn; [reflexivity|]. induction t; cbn; auto. }
  rewrite R.
  assert (H : has_Q (VA (map vnat l)) = false).
  { change (existsb has_Q (map vnat l) = false). clear R.
    induction l as [|a t IH]; [reflexivity|]. cbn [map existsb]. rewrite IH. reflexivity. }
  rewrite H. cbn [to_array]. rewrite (map_opt_map_some _ _ vnat); [reflexivity|]. intros x. reflexivity.
Qed.

Lemma nondecb_cons_cumsum acc l : nondecb (acc :: cumsum_from acc l) = true.
Proof.
  revert acc. induction l as [|x t IH]; intros acc; [reflexivity|].
  cbn [cumsum_from].
  change (nondecb (acc :: acc + x :: cumsum_from (acc + x) t)%nat)
    with ((acc <=? acc + x)%nat && nondecb (acc + x :: cumsum_from (acc + x) t)%nat).
  rewrite IH. destruct (Nat.leb_spec acc (acc + x)); [reflexivity|lia].
Qed.

Lemma nondecb_cumsum l : nondecb (cumsum l) = true.
Proof. unfold cumsum. destruct l as [|x t]; [reflexivity|]. cbn [cumsum_from]. apply nondecb_cons_cumsum. Qed.

Lemma usort_length_nodupb l : (length (usort l) =? length l)%nat = nodupb l.
Proof.
  assert (Hincl : incl (usort l) l) by (intros x Hx; apply usort_In; exact Hx).
  assert (Hle : (length (usort l) <= length l)%nat) by (apply NoDup_incl_length; [apply usort_NoDup|exact Hincl]).
  destruct (nodupb l) eqn:E.
  - apply nodupb_NoDup in E. apply Nat.eqb_eq. apply Nat.le_antisymm; [exact Hle|].
    apply NoDup_incl_length; [exact E|]. intros x Hx. apply usort_In. exact Hx.
  - apply Nat.eqb_neq. intros Heq.
    assert (N : NoDup l).
    { apply (@NoDup_incl_NoDup nat (usort l) l); [apply usort_NoDup|lia|exact Hincl]. }
    apply nodupb_NoDup in N. congruence.
Qed.

Lemma nth_val_last {A} (f : A -> val) (l : list A) (d : A) :
  l <> [] -> nth_val (map f l) (length l - 1) = Some (f (last l d)).
Proof.
  induction l as [|x [|y t] IH]; intros H; [contradiction|reflexivity|].
  replace (length (x :: y :: t) - 1)%nat with (S (length (y :: t) - 1)) by (cbn [length]; lia).
  change (map f (x :: y :: t)) with (f x :: map f (y :: t)). cbn [nth_val].
  rewrite IH by discriminate. reflexivity.
Qed.

Lemma existsb_map {A B} (f : B -> bool) (g : A -> B) l : existsb f (map g l) = existsb (fun x => f (g x)) l.
Proof. induction l; cbn; congruence. Qed.

Lemma unB_map {A} (f : A -> bool) l : unB (map (fun x => VB (f x)) l) = Some (map f l).
Proof. unfold unB. apply (map_opt_map_some _ _ f). reflexivity. Qed.

Lemma norm_index_last n : (0 < n)%nat -> norm_index n (-1) = Some (n - 1)%nat.
Proof.
  intros H. unfold norm_index. change (-1 <? 0)%Z with true. cbv iota.
  destruct (Z.ltb_spec (-1 + Z.of_nat n) 0); [lia|].
  destruct (Z.leb_spec (Z.of_nat n) (-1 + Z.of_nat n)); [lia|].
  cbn [orb]. f_equal. lia.
Qed.

(** np.arange(1, parts) * total // parts, on naturals *)
Lemma ideal_cumsum_eq (L parts : nat) :
  (1 <= parts)%nat ->
  map (fun i => VZ ((1 + Z.of_nat i) * Z.of_nat L / Z.of_nat parts)) (seq 0 (Z.to_nat (Z.of_nat parts - 1))) =
  map vnat (map (fun j => (j * L) / parts)%nat (seq 1 (parts - 1))).
Proof.
  intros H. replace (Z.to_nat (Z.of_nat parts - 1)) with (parts - 1)%nat by lia.
  rewrite <- seq_shift, !map_map. apply map_ext. intros i. unfold vnat. f_equal.
  rewrite Nat2Z.inj_div, Nat2Z.inj_mul. f_equal. f_equal. lia.
Qed.

Lemma Zeqb_of_nat a b : (Z.of_nat a =? Z.of_nat b)%Z = (a =? b)%nat.
Proof. destruct (Z.eqb_spec (Z.of_nat a) (Z.of_nat b)), (Nat.eqb_spec a b); try reflexivity; lia. Qed.

Lemma cmp_bc_eq_vnat idx k :
  cmp_bc CEq (VA (map vnat idx)) (VZ k) = Some (VA (map (fun n => VB (Z.of_nat n =? k)%Z) idx)).
Proof.
  unfold cmp_bc. rewrite (map_opt_map_some _ _ (fun n => VB (Z.of_nat n =? k)%Z)); reflexivity.
Qed.

Lemma existsb_vnat_eq idx m :
  existsb (fun b : bool => b) (map (fun n => (Z.of_nat n =? Z.of_nat m)%Z) idx) = existsb (Nat.eqb m) idx.
Proof.
  rewrite existsb_map. induction idx as [|x t IH]; cbn [existsb]; [reflexivity|].
  rewrite IH, Zeqb_of_nat, Nat.eqb_sym. reflexivity.
Qed.

(** * Float arrays given as [map (fun z => VQ (f z)) l] *)
From Coq Require Import String.
Local Open Scope string_scope.
Definition qcmp (op : cmpop) (x y : Q) : bool :=
  match op with
  | CLt => Qltb x y | CLe => Qleb x y | CGt => Qltb y x | CGe => Qleb y x
  | CEq => Qeqb x y | CNe => negb (Qeqb x y)
  end.

Lemma Qcompare_inject_Z a b : (inject_Z a ?= inject_Z b)%Q = (a ?= b)%Z.
Proof. unfold Qcompare, inject_Z. cbn [Qnum Qden]. rewrite !Z.mul_1_r. reflexivity. Qed.

Lemma cmp_val_toQ op a b x y : toQ a = Some x -> toQ b = Some y -> cmp_val op a b = Some (qcmp op x y).
Proof.
  destruct a, b; cbn [toQ]; intros Ha Hb; try discriminate; injection Ha as <-; injection Hb as <-;
    try reflexivity.
  cbn [cmp_val cmp_scalar]. f_equal. unfold qcmp, Qltb, Qleb, Qeqb, Z.ltb, Z.leb. rewrite !Qcompare_inject_Z.
  destruct op; try reflexivity.
  - rewrite Z.eqb_compare. reflexivity.
  - rewrite Z.eqb_compare. reflexivity.
Qed.

Lemma cmp_bc_scalar op a b x y : toQ a = Some x -> toQ b = Some y -> cmp_bc op a b = Some (VB (qcmp op x y)).
Proof.
  intros Ha Hb. unfold cmp_bc. rewrite (cmp_val_toQ op a b x y Ha Hb).
  destruct a, b; cbn [toQ] in Ha, Hb; try discriminate; reflexivity.
Qed.

Lemma cmp_bc_arrQ {A} op (f : A -> Q) (l : list A) b y :
  toQ b = Some y ->
  cmp_bc op (VA (map (fun z => VQ (f z)) l)) b = Some (VA (map (fun z => VB (qcmp op (f z) y)) l)).
Proof.
  intros Hb. unfold cmp_bc.
  rewrite (map_opt_map_some _ _ (fun z => VB (qcmp op (f z) y))).
  - destruct b; cbn [toQ] in Hb; try discriminate; reflexivity.
  - intros z. rewrite (cmp_val_toQ op (VQ (f z)) b (f z) y eq_refl Hb). reflexivity.
Qed.

Lemma binop_arrQ_mod {A} (f : A -> Q) (l : list A) (k : positive) :
  binop_val Mod (VA (map (fun z => VQ (f z)) l)) (VZ (Zpos k)) =
  Some (VA (map (fun z => VQ (qmod (f z) (inject_Z (Zpos k)))) l)).
Proof. unfold binop_val. cbn [bc_l]. rewrite (map_opt_map_some _ _ (fun z => VQ (qmod (f z) (inject_Z (Zpos k))))); reflexivity. Qed.

Lemma binop_arrQ_add {A} (f : A -> Q) (l : list A) (k : Z) :
  binop_val Add (VA (map (fun z => VQ (f z)) l)) (VZ k) = Some (VA (map (fun z => VQ (f z + inject_Z k)%Q) l)).
Proof. unfold binop_val. cbn [bc_l]. rewrite (map_opt_map_some _ _ (fun z => VQ (f z + inject_Z k)%Q)); reflexivity. Qed.

Lemma binop_arrQ_sub {A} (f : A -> Q) (l : list A) (k : Z) :
  binop_val Sub (VA (map (fun z => VQ (f z)) l)) (VZ k) = Some (VA (map (fun z => VQ (f z - inject_Z k)%Q) l)).
Proof. unfold binop_val. cbn [bc_l]. rewrite (map_opt_map_some _ _ (fun z => VQ (f z - inject_Z k)%Q)); reflexivity. Qed.

Lemma call_np_any {A} (p : A -> bool) (l : list A) :
  call "np.any" [VA (map (fun z => VB (p z)) l)] = Some (Some (VB (existsb p l))).
Proof.
  cbn -[unB existsb]. rewrite unB_map, existsb_map. reflexivity.
Qed.

(** np.where(cond, k, x) on a float array x *)
Lemma call_np_where {A} (c : A -> bool) (f : A -> Q) (k : Z) (l : list A) :
  call "np.where" [VA (map (fun z => VB (c z)) l); VZ k; VA (map (fun z => VQ (f z)) l)] =
  Some (Some (VA (map (fun z => VQ (if c z then inject_Z k else f z)) l))).
Proof.
  cbn -[bc_list where3 to_array has_Q List.length].
  unfold bc_list. rewrite !map_length, Nat.eqb_refl.
  assert (W : where3 (map (fun z => VB (c z)) l) (repeat (VZ k) (List.length l)) (map (fun z => VQ (f z)) l) =
              Some (map (fun z => if c z then VZ k else VQ (f z)) l)).
  { induction l as [|x t IH]; [reflexivity|]. cbn [map List.length repeat where3]. rewrite IH. reflexivity. }
  rewrite W.
  destruct l as [|x t]; [reflexivity|].
  assert (H : has_Q (VZ k) || has_Q (VA (map (fun z => VQ (f z)) (x :: t))) = true) by reflexivity.
  rewrite H. cbn [to_array].
  rewrite (map_opt_map_some _ _ (fun z => VQ (if c z then inject_Z k else f z))); [reflexivity|].
  intros z. destruct (c z); reflexivity.
Qed.

Lemma rect_arrQ {A} (f : A -> Q) (l : list A) : rect (VA (map (fun z => VQ (f z)) l)) = true.
Proof.
  cbn [rect]. apply andb_true_intro. split.
  - induction l; cbn; auto.
  - destruct l as [|x t]; cbn [map]; [reflexivity|]. induction t; cbn; auto.
Qed.

Lemma shape_arrQ {A} (f : A -> Q) (l : list A) : shape_of (VA (map (fun z => VQ (f z)) l)) = [List.length l].
Proof. cbn [shape_of]. rewrite map_length. destruct l; reflexivity. Qed.

Lemma to_array_arrQ {A} cast (f : A -> Q) (l : list A) :
  to_array cast (VA (map (fun z => VQ (f z)) l)) = Some (VA (map (fun z => VQ (f z)) l)).
Proof. cbn [to_array]. rewrite (map_opt_map_some _ _ (fun z => VQ (f z))); reflexivity. Qed.

(** np.array((lon, lat)) for two float arrays of the same List.length *)
Lemma np_array_coords {A B} (f : A -> Q) (g : B -> Q) (l1 : list A) (l2 : list B) :
  List.length l1 = List.length l2 ->
  np_array (VL [VA (map (fun z => VQ (f z)) l1); VA (map (fun z => VQ (g z)) l2)]) =
  Some (VA [VA (map (fun z => VQ (f z)) l1); VA (map (fun z => VQ (g z)) l2)]).
Proof.
  intros H. unfold np_array.
  set (a := VA (map (fun z => VQ (f z)) l1)). set (b := VA (map (fun z => VQ (g z)) l2)).
  assert (R : rect (VL [a; b]) = true).
  { change (rect (VL [a; b])) with ((rect a && (rect b && true)) && (shape_eqb (shape_of b) (shape_of a) && true)).
    subst a b. rewrite !rect_arrQ, !shape_arrQ, H. cbn. rewrite Nat.eqb_refl. reflexivity. }
  rewrite R.
  change (to_array (has_Q (VL [a; b])) (VL [a; b]))
    with (option_map VA (match to_array (has_Q (VL [a; b])) a, (match to_array (has_Q (VL [a; b])) b with Some y => Some [y] | None => None end) with
                         | Some y, Some r => Some (y :: r) | _, _ => None end)).
  subst a b. rewrite !to_array_arrQ. reflexivity.
Qed.

(** coordinates[0] = longitude, both float arrays over the same index list *)
Lemma set_item_row {A B} (f h : A -> Q) (g : B -> Q) (l1 : list A) (l2 : list B) :
  set_item (VA [VA (map (fun z => VQ (f z)) l1); VA (map (fun z => VQ (g z)) l2)]) 0
           (VA (map (fun z => VQ (h z)) l1)) =
  Some (Some (VA [VA (map (fun z => VQ (h z)) l1); VA (map (fun z => VQ (g z)) l2)])).
Proof.
  cbn -[store_cast]. unfold store_cast.
  rewrite rect_arrQ, to_array_arrQ, !shape_arrQ.
  assert (S : shape_eqb [List.length l1] [List.length l1] = true) by (cbn; rewrite Nat.eqb_refl; reflexivity).
  rewrite S.
  destruct l1 as [|x t]; [|reflexivity].
  assert (E : has_Q (VA (map (fun z : A => VQ (h z)) [])) = false) by reflexivity.
  rewrite E, andb_false_r. reflexivity.
Qed.

Lemma existsb_or_forallb {A} (p q : A -> bool) l :
  existsb p l || existsb q l = negb (forallb (fun x => negb (p x) && negb (q x)) l).
Proof.
  induction l as [|x t IH]; [reflexivity|]. cbn [existsb forallb].
  rewrite negb_andb, <- IH. destruct (p x), (q x), (existsb p t), (existsb q t); reflexivity.
Qed.

Global Instance scaled_if (s : positive) (c : bool) x y a b :
  Scaled s x a -> Scaled s y b -> Scaled s (if c then x else y) (if c then a else b).
Proof. destruct c; auto. Qed.

Lemma val_eqb_arrQ {A} (f g : A -> Q) (l : list A) :
  (forall z, Qeqb (f z) (g z) = true) ->
  val_eqb (VA (map (fun z => VQ (f z)) l)) (VA (map (fun z => VQ (g z)) l)) = true.
Proof.
  intros H. cbn [val_eqb]. induction l as [|x t IH]; [reflexivity|].
  cbn [map]. cbn [val_eqb]. rewrite H. exact IH.
Qed.

Lemma call_np_array v a : np_array v = Some a -> call "np.array" [v] = Some (Some a).
Proof. intros H. cbn -[np_array]. rewrite H. reflexivity. Qed.

Lemma val_eqb_VL2 a b a' b' : val_eqb (VL [a; b]) (VL [a'; b']) = val_eqb a a' && val_eqb b b'.
Proof. cbn [val_eqb]. rewrite andb_true_r. reflexivity. Qed.

Lemma val_eqb_VA2 a b a' b' : val_eqb (VA [a; b]) (VA [a'; b']) = val_eqb a a' && val_eqb b b'.
Proof. cbn [val_eqb]. rewrite andb_true_r. reflexivity. Qed.

Lemma Qeqb_refl x : Qeqb x x = true.
Proof. apply Qeqb_spec. reflexivity. Qed.

(** int arrays given as [map (fun i => VZ (g i)) l]: array * int, array // int *)
Lemma binop_arrZ_mul {A} (g : A -> Z) (l : list A) (k : Z) :
  binop_val Mul (VA (map (fun i => VZ (g i)) l)) (VZ k) = Some (VA (map (fun i => VZ (g i * k)) l)).
Proof. unfold binop_val. cbn [bc_l]. rewrite (map_opt_map_some _ _ (fun i => VZ (g i * k))); reflexivity. Qed.

Lemma binop_arrZ_floordiv {A} (g : A -> Z) (l : list A) (k : Z) :
  (k =? 0)%Z = false ->
  binop_val FloorDiv (VA (map (fun i => VZ (g i)) l)) (VZ k) = Some (VA (map (fun i => VZ (g i / k)) l)).
Proof.
  intros H. unfold binop_val. cbn [bc_l]. rewrite (map_opt_map_some _ _ (fun i => VZ (g i / k))); [reflexivity|].
  intros i. cbn [bc_l arith]. rewrite H. reflexivity.
Qed.

Lemma nth_val_last' {A} (f : A -> val) (l : list A) (d : A) (n : nat) :
  l <> [] -> List.length l = n -> nth_val (map f l) (n - 1) = Some (f (last l d)).
Proof. intros H <-. apply nth_val_last, H. Qed.

(** * 2-D float arrays (rows of rationals) *)
Definition arr2 (rows : list (list Q)) : val := VA (map (fun r => VA (map VQ r)) rows).

Lemma all_scalar_VQ l : all_scalar (map VQ l) = true.
Proof. unfold all_scalar. induction l; cbn; auto. Qed.

Lemma np_array_VL_VQ l : np_array (VL (map VQ l)) = Some (VA (map VQ l)).
Proof.
  unfold np_array.
  assert (R : rect (VL (map VQ l)) = true).
  { cbn [rect]. apply andb_true_intro. split.
    - induction l; cbn; auto.
    - destruct l as [|x t]; cbn [map]; [reflexivity|]. induction t; cbn; auto. }
  rewrite R. cbn [to_array]. rewrite (map_opt_map_some _ _ VQ); [reflexivity|]. reflexivity.
Qed.

Lemma ones_like_arr2 rows :
  ones_like (arr2 rows) = Some (VA (map (fun r => VA (map (fun _ : Q => VQ 1) r)) rows)).
Proof.
  unfold arr2. cbn [ones_like].
  rewrite (map_opt_map_some _ _ (fun r => VA (map (fun _ : Q => VQ 1) r))); [reflexivity|].
  intros r. cbn [ones_like]. rewrite (map_opt_map_some _ _ (fun _ : Q => VQ 1)); reflexivity.
Qed.

Lemma mul_ones_arr2 rows (v : Q) :
  binop_val Mul (VA (map (fun r => VA (map (fun _ : Q => VQ 1) r)) rows)) (VQ v) =
  Some (VA (map (fun r => VA (map (fun _ : Q => VQ (1 * v)%Q) r)) rows)).
Proof.
  unfold binop_val. cbn [bc_l].
  rewrite (map_opt_map_some _ _ (fun r => VA (map (fun _ : Q => VQ (1 * v)%Q) r))); [reflexivity|].
  intros r. cbn [bc_l]. rewrite (map_opt_map_some _ _ (fun _ : Q => VQ (1 * v)%Q)); reflexivity.
Qed.

Lemma val_eqb_VT2 a b a' b' : val_eqb (VT [a; b]) (VT [a'; b']) = val_eqb a a' && val_eqb b b'.
Proof. cbn [val_eqb]. rewrite andb_true_r. reflexivity. Qed.

(** * Comprehensions *)
Lemma comp_list_map f (g : val -> val) vs :
  (forall v, In v vs -> f v = Some (Some (g v))) -> comp_loop CList f vs = Some (Some (VL (map g vs))).
Proof.
  induction vs as [|x t IH]; intros H; [reflexivity|].
  cbn [comp_loop map]. rewrite (H x (or_introl eq_refl)), IH; [reflexivity|].
  intros v Hv. apply H. right. exact Hv.
Qed.

Lemma comp_all_forallb f (p : val -> bool) vs :
  (forall v, In v vs -> f v = Some (Some (VB (p v)))) -> comp_loop CAll f vs = Some (Some (VB (forallb p vs))).
Proof.
  induction vs as [|x t IH]; intros H; [reflexivity|].
  cbn [comp_loop forallb]. rewrite (H x (or_introl eq_refl)). cbn [truthy].
  destruct (p x); [|reflexivity]. apply IH. intros v Hv. apply H. right. exact Hv.
Qed.

Lemma comp_any_existsb f (p : val -> bool) vs :
  (forall v, In v vs -> f v = Some (Some (VB (p v)))) -> comp_loop CAny f vs = Some (Some (VB (existsb p vs))).
Proof.
  induction vs as [|x t IH]; intros H; [reflexivity|].
  cbn [comp_loop existsb]. rewrite (H x (or_introl eq_refl)). cbn [truthy].
  destruct (p x); [reflexivity|]. apply IH. intros v Hv. apply H. right. exact Hv.
Qed.

(** == on shapes (tuples of naturals) *)
Lemma all_num_vnat l : forallb (fun v => match v with VZ _ | VQ _ => true | _ => false end) (map vnat l) = true.
Proof. induction l as [|x t IH]; [reflexivity|]. cbn [map forallb]. rewrite IH. reflexivity. Qed.

Lemma tuple_eqb_vnat a : forall b, tuple_eqb (map vnat a) (map vnat b) = Some (Verdict.list_eqb Nat.eqb a b).
Proof.
  induction a as [|x a IH]; intros [|y b]; try reflexivity.
  - change (tuple_eqb (map vnat []) (map vnat (y :: b)))
      with (if forallb (fun v => match v with VZ _ | VQ _ => true | _ => false end) ([] ++ map vnat (y :: b))
            then Some false else None).
    cbn [app]. rewrite all_num_vnat. reflexivity.
  - change (tuple_eqb (map vnat (x :: a)) (map vnat []))
      with (if forallb (fun v => match v with VZ _ | VQ _ => true | _ => false end) (map vnat (x :: a) ++ [])
            then Some false else None).
    rewrite app_nil_r, all_num_vnat. reflexivity.
  - cbn [map tuple_eqb Verdict.list_eqb]. rewrite IH. unfold vnat at 1 2. cbn [cmp_scalar].
    rewrite Zeqb_of_nat. reflexivity.
Qed.

Lemma cmp_val_shape op a b :
  cmp_val op (VT (map vnat a)) (VT (map vnat b)) =
  match op with
  | CEq => Some (Verdict.list_eqb Nat.eqb a b)
  | CNe => Some (negb (Verdict.list_eqb Nat.eqb a b))
  | _ => None
  end.
Proof. cbn [cmp_val]. rewrite tuple_eqb_vnat. destruct op; reflexivity. Qed.

(** the same over [map g l] *)
Lemma comp_list_map' {A} f (g : A -> val) (h : A -> val) (l : list A) :
  (forall a, In a l -> f (g a) = Some (Some (h a))) -> comp_loop CList f (map g l) = Some (Some (VL (map h l))).
Proof.
  induction l as [|x t IH]; intros H; [reflexivity|].
  cbn [comp_loop map]. rewrite (H x (or_introl eq_refl)), IH; [reflexivity|].
  intros a Ha. apply H. right. exact Ha.
Qed.

Lemma comp_all_forallb' {A} f (g : A -> val) (p : A -> bool) (l : list A) :
  (forall a, In a l -> f (g a) = Some (Some (VB (p a)))) -> comp_loop CAll f (map g l) = Some (Some (VB (forallb p l))).
Proof.
  induction l as [|x t IH]; intros H; [reflexivity|].
  cbn [comp_loop forallb map]. rewrite (H x (or_introl eq_refl)). cbn [truthy].
  destruct (p x); [|reflexivity]. apply IH. intros a Ha. apply H. right. exact Ha.
Qed.

Lemma comp_any_existsb' {A} f (g : A -> val) (p : A -> bool) (l : list A) :
  (forall a, In a l -> f (g a) = Some (Some (VB (p a)))) -> comp_loop CAny f (map g l) = Some (Some (VB (existsb p l))).
Proof.
  induction l as [|x t IH]; intros H; [reflexivity|].
  cbn [comp_loop existsb map]. rewrite (H x (or_introl eq_refl)). cbn [truthy].
  destruct (p x); [reflexivity|]. apply IH. intros a Ha. apply H. right. exact Ha.
Qed.

Lemma forallb_map' {A B} (f : B -> bool) (g : A -> B) l : forallb f (map g l) = forallb (fun x => f (g x)) l.
Proof. induction l; cbn; congruence. Qed.

Lemma existsb_negb_forallb {A} (p : A -> bool) l : existsb (fun x => negb (p x)) l = negb (forallb p l).
Proof. induction l as [|x t IH]; [reflexivity|]. cbn [existsb forallb]. rewrite IH. destruct (p x); reflexivity. Qed.

Lemma forallb_ext_in {A} (p q : A -> bool) l : (forall x, In x l -> p x = q x) -> forallb p l = forallb q l.
Proof.
  induction l as [|x t IH]; intros H; [reflexivity|]. cbn [forallb].
  rewrite (H x (or_introl eq_refl)), IH; [reflexivity|]. intros y Hy. apply H. right. exact Hy.
Qed.

Lemma existsb_ext_in {A} (p q : A -> bool) l : (forall x, In x l -> p x = q x) -> existsb p l = existsb q l.
Proof.
  induction l as [|x t IH]; intros H; [reflexivity|]. cbn [existsb].
  rewrite (H x (or_introl eq_refl)), IH; [reflexivity|]. intros y Hy. apply H. right. exact Hy.
Qed.

Lemma concat_repeat_1 {A} (x : A) n : List.concat (repeat [x] n) = repeat x n.
Proof. induction n; cbn; congruence. Qed.

Lemma comp_raise_first k f v t : f v = Some None -> comp_loop k f (v :: t) = Some None.
Proof. intros H. cbn [comp_loop]. rewrite H. reflexivity. Qed.

(** * element-wise and of two bool arrays *)
Definition and_list (a b : list bool) : list bool := map (fun p => fst p && snd p) (combine a b).

Lemma and_list_map2 {A B} (p : A -> bool) (q : B -> bool) l1 l2 :
  and_list (map p l1) (map q l2) = map (fun xy => p (fst xy) && q (snd xy)) (combine l1 l2).
Proof.
  unfold and_list. revert l2. induction l1 as [|x t IH]; intros [|y u]; try reflexivity.
  cbn [map combine fst snd]. rewrite IH. reflexivity.
Qed.

Lemma and_list_map {A} (p q : A -> bool) l : and_list (map p l) (map q l) = map (fun x => p x && q x) l.
Proof. unfold and_list. induction l as [|x t IH]; [reflexivity|]. cbn [map combine fst snd]. rewrite IH. reflexivity. Qed.

Lemma unB_VB (l : list bool) : unB (map VB l) = Some l.
Proof. unfold unB. induction l as [|x t IH]; [reflexivity|]. cbn [map map_opt]. cbn in IH. rewrite IH. reflexivity. Qed.

Lemma cmp_bc_VQ op (l : list Q) b y :
  toQ b = Some y -> cmp_bc op (VA (map VQ l)) b = Some (VA (map VB (map (fun x => qcmp op x y) l))).
Proof.
  intros Hb. assert (H := cmp_bc_arrQ op (fun z : Q => z) l b y Hb).
  rewrite map_map. etransitivity; [|exact H]. reflexivity.
Qed.

(** * several for clauses; sorted(key=sum) against Model/Trend.v *)
From Verde Require Import Model.Trend.

Lemma comp_concat_map' {A} f (g : A -> val) (h : A -> list val) (l : list A) :
  (forall a, In a l -> f (g a) = Some (Some (VL (h a)))) ->
  comp_loop CConcat f (map g l) = Some (Some (VL (flat_map h l))).
Proof.
  induction l as [|x t IH]; intros H; [reflexivity|].
  cbn [comp_loop map flat_map]. rewrite (H x (or_introl eq_refl)), IH; [reflexivity|].
  intros a Ha. apply H. right. exact Ha.
Qed.

Lemma map_flat_map {A B C} (f : B -> C) (g : A -> list B) l :
  map f (flat_map g l) = flat_map (fun x => map f (g x)) l.
Proof. induction l as [|x t IH]; [reflexivity|]. cbn [flat_map]. rewrite map_app, IH. reflexivity. Qed.

Lemma flat_map_ext_in {A B} (f g : A -> list B) l : (forall x, In x l -> f x = g x) -> flat_map f l = flat_map g l.
Proof.
  induction l as [|x t IH]; intros H; [reflexivity|]. cbn [flat_map].
  rewrite (H x (or_introl eq_refl)), IH; [reflexivity|]. intros y Hy. apply H. right. exact Hy.
Qed.

Section SortKeyed.
Context {A : Type} (k : A -> nat) (pv : A -> val).
Let F (c : A) : Z * val := (Z.of_nat (k c), pv c).

Lemma insert_key_map x l : insert_key (Z.of_nat (k x)) (pv x) (map F l) = map F (insert_by k x l).
Proof.
  induction l as [|y t IH]; [reflexivity|].
  cbn [map insert_key insert_by]. unfold F at 1. cbn [fst snd].
  assert (E : (Z.of_nat (k x) <=? Z.of_nat (k y))%Z = (k x <=? k y)%nat).
  { destruct (Z.leb_spec (Z.of_nat (k x)) (Z.of_nat (k y))), (Nat.leb_spec (k x) (k y)); try reflexivity; lia. }
  rewrite E. destruct (k x <=? k y)%nat; [reflexivity|]. cbn [map]. rewrite IH. reflexivity.
Qed.

Lemma sort_keyed_map l : sort_keyed (map F l) = map F (stable_sort k l).
Proof.
  induction l as [|x t IH]; [reflexivity|].
  cbn [map sort_keyed stable_sort]. unfold F at 1. rewrite IH. apply insert_key_map.
Qed.
End SortKeyed.

(** * Updating the middle of a list (x[i] op= e in a loop) *)
Lemma norm_index_mid (a b : list val) (x : val) :
  norm_index (List.length (a ++ x :: b)%list) (Z.of_nat (List.length a)) = Some (List.length a).
Proof.
  unfold norm_index. rewrite app_length. cbn [List.length].
  assert (E1 : (Z.of_nat (List.length a) <? 0)%Z = false) by (apply Z.ltb_ge; lia).
  assert (E2 : (Z.of_nat (List.length a + S (List.length b)) <=? Z.of_nat (List.length a))%Z = false)
    by (apply Z.leb_gt; lia).
  rewrite !E1, E2. cbn [orb]. rewrite Nat2Z.id. reflexivity.
Qed.

Lemma nth_val_mid (a b : list val) (x : val) : nth_val (a ++ x :: b)%list (List.length a) = Some x.
Proof. induction a as [|y t IH]; [reflexivity|]. exact IH. Qed.

Lemma set_nth_mid (a b : list val) (x v : val) :
  set_nth (a ++ x :: b)%list (List.length a) v = Some (a ++ v :: b)%list.
Proof.
  induction a as [|y t IH]; [reflexivity|].
  cbn [app List.length set_nth]. rewrite IH. reflexivity.
Qed.

(** 1-D float arrays *)
Definition arr (c : list Q) : val := VA (map VQ c).

Lemma add_int_arr (k : Z) (c : list Q) :
  binop_val Add (VZ k) (arr c) = Some (arr (map (fun x => (inject_Z k + x)%Q) c)).
Proof.
  unfold binop_val, arr. cbn [bc_r]. rewrite map_map.
  rewrite (map_opt_map_some _ _ (fun x => VQ (inject_Z k + x)%Q)); reflexivity.
Qed.

Lemma add_arr_arr (a b : list Q) :
  List.length a = List.length b ->
  binop_val Add (arr a) (arr b) = Some (arr (map (fun p => (fst p + snd p)%Q) (combine a b))).
Proof.
  intros H. unfold binop_val, arr. rewrite !map_length, H, Nat.eqb_refl.
  assert (E : map_opt (arith2 Add) (combine (map VQ a) (map VQ b)) =
              Some (map VQ (map (fun p => (fst p + snd p)%Q) (combine a b)))).
  { clear H. revert b. induction a as [|x t IH]; intros [|y u]; try reflexivity.
    cbn [map combine map_opt]. rewrite IH. reflexivity. }
  rewrite E. reflexivity.
Qed.

(** * zip, .shape, .reshape, tuple-target comprehensions, 1-D float arrays ([arr]) *)
Lemma unQ_VQ l : unQ (map VQ l) = Some l.
Proof. unfold unQ. induction l as [|x t IH]; [reflexivity|]. cbn [map map_opt toQ]. cbn in IH. rewrite IH. reflexivity. Qed.

Lemma zipn2 (a b : list val) :
  zipn (List.length a) [a; b] = map (fun p => VT [fst p; snd p]) (combine a b).
Proof.
  revert b. induction a as [|x t IH]; intros b; [reflexivity|].
  destruct b as [|y u]; [reflexivity|]. cbn [List.length zipn heads_tails combine map fst snd]. rewrite IH. reflexivity.
Qed.

Lemma zipn3 (a b c : list val) :
  zipn (List.length a) [a; b; c] =
  map (fun p => VT [fst (fst p); snd (fst p); snd p]) (combine (combine a b) c).
Proof.
  revert b c. induction a as [|x t IH]; intros b c; [reflexivity|].
  destruct b as [|y u]; [reflexivity|]. destruct c as [|z v]; [reflexivity|].
  cbn [List.length zipn heads_tails combine map fst snd]. rewrite IH. reflexivity.
Qed.

Lemma call_zip2 a b la lb :
  seq_of a = Some la -> seq_of b = Some lb ->
  call "zip" [a; b] = Some (Some (VL (map (fun p => VT [fst p; snd p]) (combine la lb)))).
Proof.
  intros Ha Hb. cbn -[zipn]. rewrite Ha, Hb. cbn [hd]. rewrite zipn2. reflexivity.
Qed.

Lemma call_zip3 a b c la lb lc :
  seq_of a = Some la -> seq_of b = Some lb -> seq_of c = Some lc ->
  call "zip" [a; b; c] =
  Some (Some (VL (map (fun p => VT [fst (fst p); snd (fst p); snd p]) (combine (combine la lb) lc)))).
Proof.
  intros Ha Hb Hc. cbn -[zipn]. rewrite Ha, Hb, Hc. cbn [hd]. rewrite zipn3. reflexivity.
Qed.

Lemma combine_map {A B A' B'} (f : A -> A') (g : B -> B') a b :
  combine (map f a) (map g b) = map (fun p => (f (fst p), g (snd p))) (combine a b).
Proof.
  revert b. induction a as [|x t IH]; intros [|y u]; try reflexivity.
  cbn [map combine fst snd]. rewrite IH. reflexivity.
Qed.

Lemma rect_arr c : rect (arr c) = true.
Proof.
  unfold arr. cbn [rect]. apply andb_true_intro. split.
  - induction c; cbn; auto.
  - destruct c as [|x t]; cbn [map]; [reflexivity|]. induction t; cbn; auto.
Qed.

Lemma shape_of_arr c : shape_of (arr c) = [List.length c].
Proof. unfold arr. cbn [shape_of]. rewrite map_length. destruct c; reflexivity. Qed.

Lemma call_shape_arr c : call "attr:shape" [arr c] = Some (Some (VT [VZ (Z.of_nat (List.length c))])).
Proof.
  assert (R := rect_arr c). assert (S := shape_of_arr c). unfold arr in *.
  cbn -[rect shape_of]. rewrite R, S. reflexivity.
Qed.

Lemma flatten_arr_arr c : flatten_arr (arr c) = map VQ c.
Proof.
  unfold arr. cbn [flatten_arr]. induction c as [|x t IH]; [reflexivity|].
  cbn [map flat_map flatten_arr app]. rewrite IH. reflexivity.
Qed.

(** p.reshape((n,)) of a 1-D array: p itself, or ValueError when p has not n elements *)
Lemma call_reshape_arr p n :
  call "meth:reshape" [arr p; VT [VZ (Z.of_nat n)]] =
  if (List.length p =? n)%nat then Some (Some (arr p)) else Some None.
Proof.
  assert (R := rect_arr p). assert (F := flatten_arr_arr p). unfold arr in *.
  cbn -[rect flatten_arr Z.of_nat Z.eqb Z.leb]. rewrite R, F, map_length.
  assert (E1 : (Z.of_nat n =? -1)%Z = false) by (apply Z.eqb_neq; lia).
  rewrite E1. cbn [orb]. rewrite Zeqb_of_nat, Nat.eqb_sym.
  destruct (List.length p =? n)%nat; [reflexivity|].
  assert (E2 : (0 <=? Z.of_nat n)%Z = true) by (apply Z.leb_le; lia). rewrite E2. reflexivity.
Qed.

Lemma sub_arr_arr (a b : list Q) :
  List.length a = List.length b ->
  binop_val Sub (arr a) (arr b) = Some (arr (map (fun p => (fst p - snd p)%Q) (combine a b))).
Proof.
  intros H. unfold binop_val, arr. rewrite !map_length, H, Nat.eqb_refl.
  assert (E : map_opt (arith2 Sub) (combine (map VQ a) (map VQ b)) =
              Some (map VQ (map (fun p => (fst p - snd p)%Q) (combine a b)))).
  { clear H. revert b. induction a as [|x t IH]; intros [|y u]; try reflexivity.
    cbn [map combine map_opt]. rewrite IH. reflexivity. }
  rewrite E. reflexivity.
Qed.

Lemma comp_bind_eq targets v env : comp_bind targets v env = bind_pattern targets v env.
Proof. reflexivity. Qed.

Lemma call_len_map {A} (f : A -> val) (l : list A) (wrap : list val -> val) :
  (wrap = VL \/ wrap = VT \/ wrap = VA) ->
  call "len" [wrap (map f l)] = Some (Some (VZ (Z.of_nat (List.length l)))).
Proof. intros [->|[->| ->]]; cbn -[Z.of_nat]; rewrite map_length; reflexivity. Qed.
