(** Bridging lemmas between PyLite's exact rationals and models that compute on
    scaled integers (Model/Longitude.v: angles in units of 1/s degree) or on
    naturals (Model/CrossVal.v).  Used by the per-run generated files
    harness/pylite_*.v.tmpl; compiled once with the library.

    [Scaled s x z] says that the rational [x] is [z] units of [1/s]:
    [x == z # s].  The instances follow the syntax of the rational
    expressions PyLite builds, so that [typeclasses eauto] computes the integer
    counterpart of such an expression, and the [*_scaled] lemmas turn the
    comparisons on rationals into comparisons on integers. *)
From Coq Require Import QArith Qround Qabs ZArith List Bool Lia Lqa Morphisms.
From Verde Require Import Lib.QExtra Lib.PyLite.
Import ListNotations.

Global Instance Qleb_proper : Proper (Qeq ==> Qeq ==> eq) Qleb.
Proof. intros a b H c d H'. unfold Qleb. rewrite H, H'. reflexivity. Qed.
Global Instance Qltb_proper : Proper (Qeq ==> Qeq ==> eq) Qltb.
Proof. intros a b H c d H'. unfold Qltb. rewrite H, H'. reflexivity. Qed.
Global Instance Qeqb_proper : Proper (Qeq ==> Qeq ==> eq) Qeqb.
Proof. intros a b H c d H'. unfold Qeqb. rewrite H, H'. reflexivity. Qed.

Global Instance qmod_proper : Proper (Qeq ==> Qeq ==> Qeq) qmod.
Proof.
  intros a b H c d H'. unfold qmod.
  assert (F : Qfloor (a / c) = Qfloor (b / d)) by (apply Qfloor_comp; rewrite H, H'; reflexivity).
  rewrite F, H, H'. reflexivity.
Qed.

Lemma Qmake_as_div (z : Z) (s : positive) : z # s == inject_Z z / inject_Z (Zpos s).
Proof. apply Qmake_Qdiv. Qed.

(** the float modulo of a scaled integer by a positive integer constant *)
Lemma qmod_scaled_int (z : Z) (s m : positive) :
  qmod (z # s) (inject_Z (Zpos m)) == (z mod (Zpos m * Zpos s)) # s.
Proof.
  unfold qmod.
  assert (F : Qfloor ((z # s) / inject_Z (Zpos m)) = (z / (Zpos m * Zpos s))%Z).
  { unfold Qdiv, Qinv, Qmult, Qfloor, inject_Z. cbn [Qnum Qden].
    rewrite Z.mul_1_r, Pos2Z.inj_mul, (Z.mul_comm (Zpos s)). reflexivity. }
  rewrite F. rewrite (Z.mod_eq z (Zpos m * Zpos s)) by lia.
  set (k := (z / (Zpos m * Zpos s))%Z).
  unfold Qeq, Qminus, Qplus, Qmult, Qopp, inject_Z. cbn [Qnum Qden].
  rewrite !Pos2Z.inj_mul. ring.
Qed.

Lemma Qeqb_pos_0 p : Qeqb (inject_Z (Zpos p)) 0 = false.
Proof. reflexivity. Qed.

Class Scaled (s : positive) (x : Q) (z : Z) : Prop := scaled_eq : x == z # s.

Section Scaled.
Variable s : positive.
Let S := Zpos s.

Global Instance scaled_base z : Scaled s (z # s) z | 0.
Proof. red. reflexivity. Qed.

Global Instance scaled_int k : Scaled s (inject_Z k) (k * Zpos s) | 5.
Proof. red. unfold Qeq, inject_Z. cbn [Qnum Qden]. ring. Qed.

Global Instance scaled_zero : Scaled s (inject_Z 0) 0 | 1.
Proof. red. unfold Qeq, inject_Z. cbn [Qnum Qden]. ring. Qed.

Global Instance scaled_add x y a b : Scaled s x a -> Scaled s y b -> Scaled s (x + y) (a + b).
Proof.
  unfold Scaled. intros Hx Hy. rewrite Hx, Hy. unfold Qeq, Qplus. cbn [Qnum Qden].
  rewrite !Pos2Z.inj_mul. ring.
Qed.

Global Instance scaled_sub x y a b : Scaled s x a -> Scaled s y b -> Scaled s (x - y) (a - b).
Proof.
  unfold Scaled. intros Hx Hy. rewrite Hx, Hy. unfold Qeq, Qminus, Qplus, Qopp. cbn [Qnum Qden].
  rewrite !Pos2Z.inj_mul. ring.
Qed.

Global Instance scaled_opp x a : Scaled s x a -> Scaled s (- x) (- a).
Proof. unfold Scaled. intros Hx. rewrite Hx. reflexivity. Qed.

Global Instance scaled_abs x a : Scaled s x a -> Scaled s (Qabs x) (Z.abs a).
Proof. unfold Scaled. intros Hx. rewrite Hx. reflexivity. Qed.

Global Instance scaled_mod x a m : Scaled s x a -> Scaled s (qmod x (inject_Z (Zpos m))) (a mod (Zpos m * Zpos s)).
Proof. unfold Scaled. intros Hx. rewrite Hx. apply qmod_scaled_int. Qed.

Lemma Qcompare_scaled x y a b : Scaled s x a -> Scaled s y b -> (x ?= y) = (a ?= b)%Z.
Proof.
  unfold Scaled. intros Hx Hy. rewrite Hx, Hy. unfold Qcompare. cbn [Qnum Qden].
  symmetry. apply Zmult_compare_compat_r. reflexivity.
Qed.

Lemma Qeqb_scaled x y a b : Scaled s x a -> Scaled s y b -> Qeqb x y = (a =? b)%Z.
Proof.
  intros Hx Hy. unfold Qeqb. rewrite (Qcompare_scaled x y a b Hx Hy).
  destruct (Z.eqb_spec a b) as [E|E]; [subst; rewrite Z.compare_refl; reflexivity|].
  destruct (Z.compare_spec a b); try reflexivity; contradiction.
Qed.

Lemma Qltb_scaled x y a b : Scaled s x a -> Scaled s y b -> Qltb x y = (a <? b)%Z.
Proof.
  intros Hx Hy. unfold Qltb, Z.ltb. rewrite (Qcompare_scaled x y a b Hx Hy). reflexivity.
Qed.

Lemma Qleb_scaled x y a b : Scaled s x a -> Scaled s y b -> Qleb x y = (a <=? b)%Z.
Proof.
  intros Hx Hy. unfold Qleb, Z.leb. rewrite (Qcompare_scaled x y a b Hx Hy). reflexivity.
Qed.
End Scaled.

(** turn every comparison of scaled rationals in the goal into the integer comparison *)
Ltac q2z s :=
  repeat match goal with
         | |- context [Qeqb ?x ?y] => erewrite (Qeqb_scaled s x y) by typeclasses eauto
         | |- context [Qltb ?x ?y] => erewrite (Qltb_scaled s x y) by typeclasses eauto
         | |- context [Qleb ?x ?y] => erewrite (Qleb_scaled s x y) by typeclasses eauto
         end.
