(** C20 (a): soundness of the effect analysis. *)
From Coq Require Import List Bool Arith Lia.
From Verde Require Import Model.Effects.
Import ListNotations.

Lemma pts_pmem : forall S x k, In k (pts S x) <-> pmem x k S = true.
Proof.
  intros S x k. unfold pts, pmem. rewrite in_map_iff, existsb_exists. split.
  - intros ([a b] & E & H). cbn in E. subst b. apply filter_In in H as [H1 H2]. cbn in H2.
    exists (a, k). split; [exact H1|]. cbn. rewrite H2, Nat.eqb_refl. reflexivity.
  - intros ([a b] & H1 & H2). cbn in H2. apply andb_true_iff in H2 as [Ha Hb].
    apply Nat.eqb_eq in Hb. subst b. exists (a, k). split; [reflexivity|].
    apply filter_In. split; [exact H1|exact Ha].
Qed.

Lemma in_dedup : forall l a, In a (dedup l) <-> In a l.
Proof.
  induction l as [|b t IH]; intro a; [tauto|]. cbn. destruct (existsb (Nat.eqb b) t) eqn:E.
  - rewrite IH. split; [tauto|]. intros [<-|H]; [|exact H].
    apply existsb_exists in E as (y & Hy & Ey). apply Nat.eqb_eq in Ey. subst. exact Hy.
  - cbn. rewrite IH. tauto.
Qed.

Lemma in_insert : forall l a b, In a (insert b l) <-> a = b \/ In a l.
Proof.
  induction l as [|c t IH]; intros a b; cbn; [intuition|].
  destruct (Nat.leb b c); cbn; [intuition|]. rewrite IH. intuition.
Qed.

Lemma in_sort : forall l a, In a (sort l) <-> In a l.
Proof.
  induction l as [|b t IH]; intro a; cbn; [tauto|]. rewrite in_insert, IH. intuition.
Qed.

Lemma in_mutated_of : forall p S k,
  In k (mutated_of p S) <-> exists x, In (Inplace x) (body p) /\ In k (pts S x).
Proof.
  intros p S k. unfold mutated_of. rewrite in_concat. split.
  - intros (l & Hl & Hk). apply in_map_iff in Hl as (i & <- & Hi).
    destruct i as [x|x ys|x]; try (destruct Hk). exists x. split; assumption.
  - intros (x & Hi & Hk). exists (pts S x). split; [|exact Hk].
    apply in_map_iff. exists (Inplace x). split; [reflexivity|exact Hi].
Qed.

Section Sound.
  Variable p : prog.
  Variable S : pairs.
  Hypothesis Hclosed : closedb p S = true.
  Variable e0 : env.
  Variable h0 : heap.
  Variable n0 : nat.
  (** at entry only the parameters hold references *)
  Hypothesis Hinit : forall x, nparams p <= x -> e0 x = [].

  Definition Inv (c : cfg) : Prop :=
    let '(e, h, n) := c in
    n0 <= n /\
    (forall x b, In b (e x) -> b < n0 -> exists k, In k (pts S x) /\ In b (e0 k)) /\
    (forall b, b < n0 -> (forall k, In k (mutated_of p S) -> ~ In b (e0 k)) -> h b = h0 b).

  Lemma inv_init : Inv (e0, h0, n0).
  Proof.
    split; [lia|split].
    - intros x b Hb _. destruct (Nat.lt_ge_cases x (nparams p)) as [Hx|Hx].
      + exists x. split; [|exact Hb]. apply pts_pmem.
        unfold closedb in Hclosed. apply andb_true_iff in Hclosed as [H _].
        rewrite forallb_forall in H. apply H. apply in_seq. lia.
      + rewrite (Hinit x Hx) in Hb. destruct Hb.
    - reflexivity.
  Qed.

  Lemma inv_step : forall i c c', In i (body p) -> step i c c' -> Inv c -> Inv c'.
  Proof.
    intros i c c' Hi Hs. destruct Hs as [x e h n h' Hh|x ys e h n refs m h' Hr Hh|x e h n h' Hh]; intros (Hn & He & Hp).
    - split; [lia|split].
      + intros y b Hb Hlt. unfold upd in Hb. destruct (Nat.eqb y x).
        * destruct Hb as [<-|[]]. lia.
        * apply He; assumption.
      + intros b Hb Hk. rewrite Hh by lia. apply Hp; assumption.
    - split; [lia|split].
      + intros y b Hb Hlt. unfold upd in Hb. destruct (Nat.eqb y x) eqn:Eyx.
        * apply Nat.eqb_eq in Eyx. subst y. destruct (Hr b Hb) as [(z & Hz & Hbz)|Hnew]; [|lia].
          destruct (He z b Hbz Hlt) as (k & Hk & Hbk). exists k. split; [|exact Hbk].
          apply pts_pmem. unfold closedb in Hclosed. apply andb_true_iff in Hclosed as [_ H].
          rewrite forallb_forall in H. specialize (H _ Hi). cbn in H.
          rewrite forallb_forall in H. specialize (H z Hz). rewrite forallb_forall in H. apply H. exact Hk.
        * apply He; assumption.
      + intros b Hb Hk. rewrite Hh by lia. apply Hp; assumption.
    - split; [exact Hn|split; [exact He|]].
      intros b Hb Hk. rewrite Hh; [apply Hp; assumption|].
      intro Hin. destruct (He x b Hin Hb) as (k & Hkx & Hbk).
      apply (Hk k); [|exact Hbk]. apply in_mutated_of. exists x. split; assumption.
  Qed.

  Lemma inv_run : forall c c', run p c c' -> Inv c -> Inv c'.
  Proof.
    intros c c' Hr. induction Hr as [c|i c1 c2 c3 Hi Hs Hr IH]; intro H; [exact H|].
    apply IH. eapply inv_step; eassumption.
  Qed.

  (** effects_sound: a buffer that existed at entry and is not referenced by
      a parameter the analysis reports as mutated has its entry contents after
      every execution *)
  Theorem effects_sound_S : forall e h n, run p (e0, h0, n0) (e, h, n) ->
    forall b, b < n0 -> (forall k, In k (mutated_of p S) -> ~ In b (e0 k)) -> h b = h0 b.
  Proof.
    intros e h n Hr. pose proof (inv_run _ _ Hr inv_init) as (_ & _ & H). exact H.
  Qed.

  (** every entry buffer a variable references afterwards was referenced at
      entry by one of the parameters in its points-to set *)
  Theorem alias_sound_S : forall e h n, run p (e0, h0, n0) (e, h, n) ->
    forall x b, In b (e x) -> b < n0 -> exists k, In k (pts S x) /\ In b (e0 k).
  Proof.
    intros e h n Hr. pose proof (inv_run _ _ Hr inv_init) as (_ & H & _). exact H.
  Qed.
End Sound.

Lemma mutated_params_closed : forall p,
  (forall k, In k (mutated_params p) -> k < nparams p) -> closedb p (solve p) = true.
Proof.
  intros p H. unfold mutated_params in H. destruct (closedb p (solve p)); [reflexivity|].
  specialize (H (nparams p)). assert (In (nparams p) (seq 0 (S (nparams p)))) by (apply in_seq; lia).
  specialize (H H0). lia.
Qed.

(** effects_sound: for the summary computed by [mutated_params] *)
Theorem effects_sound : forall p e0 h0 n0,
  (forall x, nparams p <= x -> e0 x = []) ->
  (forall k, In k (mutated_params p) -> k < nparams p) ->
  forall e h n, run p (e0, h0, n0) (e, h, n) ->
  forall b, b < n0 -> (forall k, In k (mutated_params p) -> ~ In b (e0 k)) -> h b = h0 b.
Proof.
  intros p e0 h0 n0 Hinit Hm e h n Hr b Hb Hk.
  pose proof (mutated_params_closed p Hm) as Hc.
  eapply effects_sound_S; try eassumption.
  intros k Hin. apply Hk. unfold mutated_params. rewrite Hc. apply in_sort. apply in_dedup. exact Hin.
Qed.

(** the obligation discharged for every public callable: no parameter
    reported => no buffer that existed before the call is changed, on any path *)
Corollary pure_function : forall p e0 h0 n0,
  (forall x, nparams p <= x -> e0 x = []) ->
  mutated_params p = [] ->
  forall e h n, run p (e0, h0, n0) (e, h, n) -> forall b, b < n0 -> h b = h0 b.
Proof.
  intros p e0 h0 n0 Hinit Hm e h n Hr b Hb.
  eapply effects_sound; try eassumption; rewrite Hm; intros k [].
Qed.

Theorem alias_sound : forall p x e0 h0 n0,
  (forall y, nparams p <= y -> e0 y = []) ->
  (forall k, In k (aliases_of p x) -> k < nparams p) ->
  forall e h n, run p (e0, h0, n0) (e, h, n) ->
  forall b, In b (e x) -> b < n0 -> exists k, In k (aliases_of p x) /\ In b (e0 k).
Proof.
  intros p x e0 h0 n0 Hinit Hm e h n Hr b Hb Hlt.
  assert (Hc : closedb p (solve p) = true).
  { unfold aliases_of in Hm. destruct (closedb p (solve p)); [reflexivity|].
    specialize (Hm (nparams p)). assert (In (nparams p) (seq 0 (S (nparams p)))) by (apply in_seq; lia).
    specialize (Hm H). lia. }
  destruct (alias_sound_S p (solve p) Hc e0 h0 n0 Hinit e h n Hr x b Hb Hlt) as (k & Hk & Hbk).
  exists k. split; [|exact Hbk]. unfold aliases_of. rewrite Hc. apply in_sort. apply in_dedup. exact Hk.
Qed.

