(** Proofs about grid / profile / scatter placement (C05). *)
From Coq Require Import QArith ZArith List Bool String Lia Lqa.
From Verde Require Import Lib.QExtra Model.Coordinates Model.Gridder
  Proofs.CoordinatesProofs.
Import ListNotations.
Open Scope Q_scope.

Lemma hd_meshgrid_e e n : n <> [] -> hd [] (meshgrid_e e n) = e.
Proof. destruct n; [congruence|reflexivity]. Qed.

Lemma col0_meshgrid_n e n : e <> [] -> map (hd 0) (meshgrid_n e n) = n.
Proof.
  intros He. unfold meshgrid_n. rewrite map_map.
  destruct e as [|x e]; [congruence|]. cbn. induction n; cbn; congruence.
Qed.

Lemma get_data_names_length ncomp names nms : get_data_names ncomp names = Some nms -> List.length nms = ncomp.
Proof.
  unfold get_data_names. destruct names as [l|].
  - destruct (Nat.eqb (List.length l) ncomp) eqn:E; [|discriminate]. intros H. injection H as <-. apply Nat.eqb_eq. exact E.
  - unfold default_data_names. destruct ncomp as [|[|[|[|?]]]]; try discriminate; intros H; injection H as <-; reflexivity.
Qed.

Lemma nth_error_combine_seq (nms : list string) n k k' nm : List.length nms = n ->
  nth_error (combine (seq 0 n) nms) k = Some (k', nm) -> k' = k /\ (k < n)%nat.
Proof.
  intros Hl Ek.
  assert (Hlt: (k < n)%nat).
  { assert (X: nth_error (combine (seq 0 n) nms) k <> None) by congruence.
    apply nth_error_Some in X. rewrite combine_length, seq_length in X. lia. }
  split; [|exact Hlt].
  apply nth_error_nth with (d := (0%nat, ""%string)) in Ek.
  rewrite combine_nth in Ek by (rewrite seq_length; lia).
  rewrite seq_nth in Ek by exact Hlt. injection Ek as <- _. reflexivity.
Qed.

Section Placement.
Variable f : point -> list Q.
Variable ncomp : nat.

(** value at row i, column j is the prediction at (east[j], north[i]) *)
Lemma predict2_meshgrid p e n k i j : (i < List.length n)%nat -> (j < List.length e)%nat ->
  nth j (nth i (predict2 f p (meshgrid_e e n) (meshgrid_n e n) k) []) 0 =
  nth k (f (p (nth j e 0, nth i n 0))) 0.
Proof.
  intros Hi Hj. unfold predict2, meshgrid_e, meshgrid_n.
  rewrite (nth_map_const _ _ _ _ ([], [])) by (rewrite combine_length, !map_length; lia).
  rewrite combine_nth by (rewrite !map_length; reflexivity).
  rewrite (nth_map_const _ _ _ _ 0) by exact Hi.
  rewrite (nth_map_const _ _ _ _ 0) by exact Hi. cbn [fst snd].
  rewrite (nth_map_const _ _ _ _ (0, 0)) by (rewrite combine_length, map_length; lia).
  rewrite combine_nth by (rewrite map_length; reflexivity).
  rewrite (nth_map_const _ _ _ _ 0) by exact Hj. reflexivity.
Qed.

Lemma predict2_shape p e n k :
  List.length (predict2 f p (meshgrid_e e n) (meshgrid_n e n) k) = List.length n /\
  forall i, (i < List.length n)%nat ->
    List.length (nth i (predict2 f p (meshgrid_e e n) (meshgrid_n e n) k) []) = List.length e.
Proof.
  unfold predict2, meshgrid_e, meshgrid_n. split.
  - rewrite map_length, combine_length, !map_length. lia.
  - intros i Hi.
    rewrite (nth_map_const _ _ _ _ ([], [])) by (rewrite combine_length, !map_length; lia).
    rewrite combine_nth by (rewrite !map_length; reflexivity).
    rewrite (nth_map_const _ _ _ _ 0) by exact Hi.
    rewrite (nth_map_const _ _ _ _ 0) by exact Hi. cbn [fst snd].
    rewrite map_length, combine_length, map_length. lia.
Qed.

(** grid() without explicit coordinates: the coordinate vectors are exactly
    those of grid_coordinates for the same arguments (region defaulting to
    region_), and the value at row i, column j of every variable is the
    prediction at the (projected) point (easting[j], northing[i]) while the
    stored coordinates stay unprojected *)
Theorem grid_from_region region_ region shape spacing adjust pixel extra proj dims names xname ds :
  grid f ncomp region_ region shape spacing adjust pixel extra None proj dims names xname = Some ds ->
  exists r g,
    (match region with Some r0 => r = r0 | None => region_ = Some r end) /\
    grid_coordinates r shape spacing adjust pixel extra true = Some g /\
    (g_east1 g <> [] -> g_north1 g <> [] ->
       ds_east ds = g_east1 g /\ ds_north ds = g_north1 g) /\
    ds_dims ds = (match dims with Some d => d | None => ("northing", "easting")%string end) /\
    Some (map fst (ds_vars ds)) = get_data_names ncomp names /\
    List.length (ds_vars ds) = ncomp /\
    map fst (ds_extra ds) = extra_names xname (List.length (g_extra g)) /\
    map snd (ds_extra ds) = g_extra g /\
    forall k name rows, nth_error (ds_vars ds) k = Some (name, rows) ->
      List.length rows = List.length (g_north1 g) /\
      forall i j, (i < List.length (g_north1 g))%nat -> (j < List.length (g_east1 g))%nat ->
        List.length (nth i rows []) = List.length (g_east1 g) /\
        nth j (nth i rows []) 0 =
        nth k (f ((match proj with Some p => p | None => fun x => x end)
                    (nth j (g_east1 g) 0, nth i (g_north1 g) 0))) 0.
Proof.
  unfold grid.
  set (reg := match region with Some r => Some r | None => region_ end).
  destruct reg as [r|] eqn:Er; [|discriminate].
  destruct (grid_coordinates r shape spacing adjust pixel extra true) as [g|] eqn:Eg; [|discriminate].
  destruct (get_data_names ncomp names) as [nms|] eqn:En; [|discriminate].
  intros H. injection H as <-. exists r, g.
  assert (Hm: g_east2 g = meshgrid_e (g_east1 g) (g_north1 g) /\ g_north2 g = meshgrid_n (g_east1 g) (g_north1 g)).
  { unfold grid_coordinates in Eg. destruct (negb (check_region r)); [discriminate|].
    destruct r as [|w [|e [|s [|n [|? ?]]]]]; try discriminate.
    match type of Eg with match ?d with _ => _ end = _ => destruct d as [[[[se sn] spe] spn]|]; [|discriminate] end.
    destruct (line_coordinates w e se spe adjust pixel); [|discriminate].
    destruct (line_coordinates s n sn spn adjust pixel); [|discriminate].
    destruct extra; injection Eg as <-; cbn; auto. }
  destruct Hm as [Hme Hmn].
  pose proof (get_data_names_length _ _ _ En) as Hlen.
  cbn [ds_east ds_north ds_dims ds_vars ds_extra].
  split. { unfold reg in Er. destruct region; [injection Er as ->; reflexivity|exact Er]. }
  split; [exact Eg|]. split.
  { intros He Hn. rewrite Hme, Hmn. split; [apply hd_meshgrid_e; exact Hn|apply col0_meshgrid_n; exact He]. }
  split; [reflexivity|]. split.
  { f_equal. rewrite map_map. cbn [fst].
    rewrite <- (map_map snd (fun x => x)). rewrite map_id.
    symmetry. rewrite <- (firstn_all nms) at 1. rewrite <- Hlen at 1.
    assert (G: forall (l1 : list nat) (l2 : list string), List.length l1 = List.length l2 -> map snd (combine l1 l2) = l2).
    { induction l1; intros [|? ?] Hl; try discriminate; cbn; [reflexivity|f_equal; apply IHl1; cbn in Hl; lia]. }
    rewrite G by (rewrite seq_length; lia). rewrite firstn_all. reflexivity. }
  split. { rewrite map_length, combine_length, seq_length. lia. }
  split.
  { assert (G: forall (l1 : list string) (l2 : list (list (list Q))), List.length l1 = List.length l2 -> map fst (combine l1 l2) = l1).
    { induction l1; intros [|? ?] Hl; try discriminate; cbn; [reflexivity|f_equal; apply IHl1; cbn in Hl; lia]. }
    apply G. unfold extra_names. rewrite map_length, seq_length. reflexivity. }
  split.
  { assert (G: forall (l1 : list string) (l2 : list (list (list Q))), List.length l1 = List.length l2 -> map snd (combine l1 l2) = l2).
    { induction l1; intros [|? ?] Hl; try discriminate; cbn; [reflexivity|f_equal; apply IHl1; cbn in Hl; lia]. }
    apply G. unfold extra_names. rewrite map_length, seq_length. reflexivity. }
  intros k name rows Hk.
  rewrite nth_error_map in Hk.
  destruct (nth_error (combine (seq 0 ncomp) nms) k) as [[k' nm]|] eqn:Ek; [|discriminate].
  cbn in Hk. injection Hk as <- <-.
  destruct (nth_error_combine_seq _ _ _ _ _ Hlen Ek) as [Hk' _].
  subst k'. rewrite Hme, Hmn.
  destruct (predict2_shape (match proj with Some p => p | None => fun x => x end) (g_east1 g) (g_north1 g) k) as [S1 S2].
  split; [exact S1|]. intros i j Hi Hj. split; [apply S2; exact Hi|].
  apply predict2_meshgrid; assumption.
Qed.

(** explicit 1-D coordinates: same placement on the given vectors *)
Theorem grid_from_vectors region_ adjust pixel extra e n proj dims names xname ds :
  e <> [] -> n <> [] ->
  grid f ncomp region_ None None None adjust pixel extra (Some (Coords1 e n)) proj dims names xname = Some ds ->
  ds_east ds = e /\ ds_north ds = n /\
  forall k name rows, nth_error (ds_vars ds) k = Some (name, rows) ->
    forall i j, (i < List.length n)%nat -> (j < List.length e)%nat ->
      nth j (nth i rows []) 0 =
      nth k (f ((match proj with Some p => p | None => fun x => x end) (nth j e 0, nth i n 0))) 0.
Proof.
  intros He Hn. unfold grid. destruct (get_data_names ncomp names) as [nms|] eqn:En; [|discriminate].
  intros H. injection H as <-. cbn [ds_east ds_north ds_vars].
  split; [apply hd_meshgrid_e; exact Hn|]. split; [apply col0_meshgrid_n; exact He|].
  intros k name rows Hk.
  rewrite nth_error_map in Hk.
  destruct (nth_error (combine (seq 0 ncomp) nms) k) as [[k' nm]|] eqn:Ek; [|discriminate].
  cbn in Hk. injection Hk as <- <-.
  destruct (nth_error_combine_seq _ _ _ _ _ (get_data_names_length _ _ _ En) Ek) as [Hk' _].
  subst k'. intros i j Hi Hj. apply predict2_meshgrid; assumption.
Qed.

(** invalid argument combinations are rejected *)
Theorem grid_arg_errors region_ region shape spacing adjust pixel extra c proj dims names xname :
  (shape <> None \/ spacing <> None ->
     grid f ncomp region_ region shape spacing adjust pixel extra (Some c) proj dims names xname = None) /\
  (region <> None ->
     grid f ncomp region_ region shape spacing adjust pixel extra (Some c) proj dims names xname = None) /\
  grid f ncomp None None shape spacing adjust pixel extra None proj dims names xname = None /\
  (forall l, List.length l <> ncomp ->
     grid f ncomp region_ region shape spacing adjust pixel extra None proj dims (Some l) xname = None).
Proof.
  unfold grid. repeat split.
  - intros [H|H]; destruct shape, spacing; try congruence; reflexivity.
  - intros H. destruct shape, spacing; try reflexivity; destruct region; congruence.
  - intros l Hl.
    destruct (match region with Some r => Some r | None => region_ end); [|reflexivity].
    destruct (grid_coordinates l0 shape spacing adjust pixel extra true); [|reflexivity].
    unfold get_data_names. destruct (Nat.eqb (List.length l) ncomp) eqn:E; [apply Nat.eqb_eq in E; congruence|reflexivity].
Qed.

(** profile(): size rows, evenly spaced between the projected end points,
    distance measured from the first point in projected units, coordinates
    mapped back with the inverse, predictions taken at the projected points *)
Theorem profile_rows p1 p2 size proj inv : (2 <= size)%nat ->
  let pr := match proj with Some p => p | None => fun x => x end in
  let iv := match inv with Some p => p | None => fun x => x end in
  let rows := profile f p1 p2 size proj inv in
  List.length rows = size /\
  forall i, (i < size)%nat ->
    exists x y d2, nth i rows (0, 0, 0, []) = (snd (iv (x, y)), fst (iv (x, y)), d2, f (x, y)) /\
      let t := inject_Z (Z.of_nat i) / inject_Z (Z.of_nat (size - 1)) in
      x == fst (pr p1) + t * (fst (pr p2) - fst (pr p1)) /\
      y == snd (pr p1) + t * (snd (pr p2) - snd (pr p1)) /\
      d2 == t * t * ((fst (pr p2) - fst (pr p1)) * (fst (pr p2) - fst (pr p1)) +
                     (snd (pr p2) - snd (pr p1)) * (snd (pr p2) - snd (pr p1))).
Proof.
  intros Hs. cbv zeta. unfold profile.
  destruct ((match proj with Some p => p | None => fun x => x end) p1) as [x1 y1] eqn:E1.
  destruct ((match proj with Some p => p | None => fun x => x end) p2) as [x2 y2] eqn:E2.
  cbn [fst snd].
  destruct (profile_even x1 y1 x2 y2 size Hs) as [L1 [L2 [_ [_ [_ Hi]]]]].
  split; [rewrite map_length, combine_length, L1, L2; lia|].
  intros i Hlt.
  rewrite (nth_map_const _ _ _ _ ((0, 0), 0)) by (rewrite combine_length, L1, L2; lia).
  rewrite combine_nth by (rewrite L1, L2; reflexivity).
  destruct (nth i (profile_points x1 y1 x2 y2 size) (0, 0)) as [x y] eqn:Ep.
  exists x, y, (nth i (profile_dist2 x1 y1 x2 y2 size) 0). cbn [fst snd]. split; [reflexivity|].
  specialize (Hi i Hlt). cbv zeta in Hi. rewrite Ep in Hi. cbn [fst snd] in Hi. exact Hi.
Qed.

(** scatter(): one row per scatter point, prediction at the (projected) point,
    unprojected coordinates in the table *)
Theorem scatter_rows pts proj i : (i < List.length pts)%nat ->
  List.length (scatter f pts proj) = List.length pts /\
  nth i (scatter f pts proj) (0, 0, []) =
  (snd (nth i pts (0, 0)), fst (nth i pts (0, 0)),
   f ((match proj with Some p => p | None => fun x => x end) (nth i pts (0, 0)))).
Proof.
  intros Hi. unfold scatter. split; [apply map_length|].
  rewrite (nth_map_const _ _ _ _ (0, 0)) by exact Hi. reflexivity.
Qed.

End Placement.
