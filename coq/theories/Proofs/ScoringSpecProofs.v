(** C12: the statement evaluated by the case functions ([spec_components],
    written out directly in Model/ScoringCases.v) is the model's
    score_estimator on the selected test rows. *)
From Coq Require Import QArith List Bool Arith Lia.
From Verde Require Import Lib.QExtra Model.Scoring Model.ScoringCases Proofs.ScoringProofs.
Import ListNotations.
Open Scope nat_scope.

Theorem spec_components_eq mt test : forall pred data w,
  match w with Some ws => length ws = length data | None => True end ->
  spec_components mt pred data w test =
  score_components mt pred (map (select 0%Q test) data) (option_map (map (select 0%Q test)) w).
Proof.
  induction pred as [|p pt IH]; intros data w Hw; [reflexivity|].
  destruct data as [|y yt]; [reflexivity|].
  cbn [spec_components]. unfold score_components. cbn [map length].
  destruct w as [[|wi wt]|]; cbn [option_map map comp_weights repeat combine map2 fst snd].
  - cbn in Hw. discriminate.
  - f_equal. cbn in Hw. injection Hw as Hw.
    rewrite (IH yt (Some wt) Hw). reflexivity.
  - f_equal. exact (IH yt None I).
Qed.

(** so the per-split statement checked on verde's output is cvs_metric's right-hand side *)
Theorem spec_score_is_cvs_metric mt data w (s : split_obs) :
  match w with Some ws => length ws = length data | None => True end ->
  spec_score mt data w s =
  qmean (score_components mt (Qc (sp_pred s)) (map (select 0%Q (sp_test s)) data)
                          (option_map (map (select 0%Q (sp_test s))) w)).
Proof. intros H. unfold spec_score. rewrite spec_components_eq by exact H. reflexivity. Qed.
