(** Lemmas used by the source-regenerated ties of verde.utils.variance_to_weights (C10) and
    verde.utils.maxabs (C13) (harness/pylite_weights.v.tmpl):
    - the bool-mask load / store and the scalar / array division of Lib/PyLite.v on float arrays;
    - [v2w_raw], the weights exactly as the code computes them (unreduced quotients, numpy's left fold for
      the minimum), proved point-wise [==] to Model/Weights.v [v2w1] on NaN-free variances;
    - [maxabs_code], the value the code computes (max over the arrays of max(|min a|, |max a|)), proved [==]
      to Model/Coordinates.v [maxabs] (the max of all |x|) for non-empty arrays. *)
From Coq Require Import ZArith QArith Qabs Qminmax List Bool String Lia Lqa.
From Verde Require Import Lib.QExtra Lib.QList Lib.PyLite Model.Coordinates Model.Weights
  Proofs.RegionProofs Proofs.WeightsProofs Proofs.PyLiteBridge.
Import ListNotations.
Open Scope string_scope.

(** ** masks *)
Lemma take_idx_mask {A} (p : A -> bool) (l : list val) (x : A) (c : list A) :
  take_idx l (map (fun z => VB (p z)) (x :: c)) = Some None.
Proof. reflexivity. Qed.

Lemma mask_take_map {A} (f : A -> val) (p : A -> bool) (c : list A) :
  mask_take (map f c) (map (fun z => VB (p z)) c) = Some (map f (filter p c)).
Proof.
  induction c as [|x t IH]; [reflexivity|].
  cbn [map mask_take filter]. rewrite IH. cbn [option_map]. destruct (p x); reflexivity.
Qed.

Lemma mask_put_map {A} (f g : A -> val) (p : A -> bool) (c : list A) :
  mask_put (map f c) (map (fun z => VB (p z)) c) (map g (filter p c)) =
  Some (map (fun z => if p z then g z else f z) c).
Proof.
  induction c as [|x t IH]; [reflexivity|].
  cbn [map mask_put filter]. destruct (p x); cbn [map]; rewrite IH; reflexivity.
Qed.

Lemma all_num_VQ l : all_num (map VQ l) = true.
Proof. unfold all_num. induction l as [|x t IH]; [reflexivity|]. cbn [map forallb]. exact IH. Qed.

Lemma np_array_arr c : np_array (arr c) = Some (arr c).
Proof.
  unfold np_array, arr. rewrite (rect_arrQ (fun z : Q => z)) by exact c.
  change (map VQ c) with (map (fun z : Q => VQ ((fun y : Q => y) z)) c).
  rewrite to_array_arrQ. reflexivity.
Qed.

(** m / a for a float array a without zeros *)
Lemma div_scalar_arr (m : Q) (l : list Q) :
  (forall v, In v l -> Qeqb v 0 = false) ->
  binop_val Div (VQ m) (arr l) = Some (arr (map (fun v => (m / v)%Q) l)).
Proof.
  intros H. unfold binop_val, arr. cbn [bc_r]. rewrite map_map.
  assert (E : map_opt (bc_r Div (VQ m)) (map VQ l) = Some (map (fun v => VQ (m / v)%Q) l)).
  { induction l as [|x t IH]; [reflexivity|].
    cbn [map map_opt bc_r arith toQ]. rewrite (H x (or_introl eq_refl)).
    rewrite IH by (intros v Hv; apply H; right; exact Hv). reflexivity. }
  rewrite E. reflexivity.
Qed.

(** storing a float array into the masked part of a float array *)
Lemma store_cast_arr (l : list Q) (old v : list Q) :
  l <> [] -> List.length old = List.length v ->
  store_cast (map VQ l) (arr old) (arr v) = Some (arr v).
Proof.
  intros Hl Hlen. unfold store_cast.
  assert (E : existsb has_Q (map VQ l) = true) by (destruct l; [congruence|reflexivity]).
  rewrite E. cbn [negb andb]. rewrite rect_arr. cbn [negb].
  unfold arr at 1. change (map VQ v) with (map (fun z : Q => VQ ((fun y : Q => y) z)) v).
  rewrite to_array_arrQ. change (VA (map (fun z : Q => VQ z) v)) with (arr v).
  rewrite !shape_of_arr, Hlen. cbn [shape_eqb]. rewrite Nat.eqb_refl. reflexivity.
Qed.

Lemma store_cast_arr' (l : list val) (old : val) (v : list Q) :
  existsb has_Q l = true -> shape_of old = [List.length v] ->
  store_cast l old (arr v) = Some (arr v).
Proof.
  intros E Hs. unfold store_cast. rewrite E. cbn [negb andb]. rewrite rect_arr. cbn [negb].
  unfold arr at 1. change (map VQ v) with (map (fun z : Q => VQ ((fun y : Q => y) z)) v).
  rewrite to_array_arrQ. change (VA (map (fun z : Q => VQ z) v)) with (arr v).
  rewrite shape_of_arr, Hs. cbn [shape_eqb]. rewrite Nat.eqb_refl. reflexivity.
Qed.

(** ** variance_to_weights *)

(** the weights as the code computes them: numpy's minimum (a left fold), unreduced quotients *)
Definition v2w_raw (tol : Q) (var : list Q) : list Q :=
  match filter (above tol) var with
  | [] => map (fun _ => 1%Q) var
  | x :: t => map (fun v => if above tol v then (Qmin_list 0 (x :: t) / v)%Q else 1%Q) var
  end.

Lemma above_qcmp tol v : qcmp CGt v tol = above tol v.
Proof.
  unfold qcmp, above, Qltb, Qle_bool, Qcompare, Z.leb.
  rewrite (Z.compare_antisym (Qnum tol * QDen v) (Qnum v * QDen tol)).
  destruct (Qnum tol * QDen v ?= Qnum v * QDen tol)%Z; reflexivity.
Qed.

Lemma above_nonzero tol v : (0 <= tol)%Q -> above tol v = true -> Qeqb v 0 = false.
Proof.
  intros Ht H. apply above_spec in H. unfold Qeqb. destruct (v ?= 0)%Q eqn:E; try reflexivity.
  apply Qeq_alt in E. lra.
Qed.

Lemma Qmin_list_qmin l : l <> [] -> (Qmin_list 0 l == qmin l)%Q.
Proof.
  intros Hl. destruct (Qmin_list_spec 0 l Hl) as [L1 I1]. destruct (qmin_spec l Hl) as [[y [Iy Ey]] L2].
  apply Qle_antisym.
  - rewrite <- Ey. apply L1. exact Iy.
  - apply L2. exact I1.
Qed.

(** the code's weights are the model's, value by value *)
Lemma v2w_raw_model tol var : Forall2 Qeq (v2w_raw tol var) (v2w1 tol (map Some var)).
Proof.
  unfold v2w_raw, v2w1, minpos. rewrite map_map. cbn [nan_to_num]. rewrite map_id.
  destruct (filter (above tol) var) as [|x t] eqn:F.
  - induction var as [|v r IH]; [constructor|]. clear IH. clear F.
    induction (v :: r) as [|a b IH]; [constructor|]. cbn [map]. constructor; [reflexivity|exact IH].
  - assert (M : (Qmin_list 0 (x :: t) == qmin (x :: t))%Q) by (apply Qmin_list_qmin; discriminate).
    clear F. induction var as [|v r IH]; [constructor|]. cbn [map]. constructor; [|exact IH].
    destruct (above tol v); [|reflexivity]. rewrite Qred_correct, M. reflexivity.
Qed.

(** ** maxabs *)

(** what the code computes for one array, and for all *)
Definition maxabs1_code (a : list Q) : Q := Qmax_list 0 [Qabs (Qmin_list 0 a); Qabs (Qmax_list 0 a)].
Definition maxabs_code (arrays : list (list Q)) : Q := Qmax_list 0 (map maxabs1_code arrays).

Lemma Qabs_between lo hi x : (lo <= x)%Q -> (x <= hi)%Q -> (Qabs x <= Qmax (Qabs lo) (Qabs hi))%Q.
Proof.
  intros H1 H2. pose proof (Qmax_ge_l (Qabs lo) (Qabs hi)). pose proof (Qmax_ge_r (Qabs lo) (Qabs hi)).
  pose proof (Qle_Qabs hi). pose proof (Qle_Qabs (- lo)). rewrite Qabs_opp in *.
  apply Qabs_Qle_condition. split; lra.
Qed.

Lemma maxabs1_code_eq a : a <> [] -> (maxabs1_code a == maxabs_list a)%Q.
Proof.
  intros Ha. unfold maxabs1_code. cbn [Qmax_list fold_left].
  destruct (Qmin_list_spec 0 a Ha) as [L1 I1]. destruct (Qmax_list_spec 0 a Ha) as [L2 I2].
  apply Qle_antisym.
  - destruct (Qmax_cases (Qabs (Qmin_list 0 a)) (Qabs (Qmax_list 0 a))) as [-> | ->]; apply maxabs_list_ub; assumption.
  - destruct (maxabs_list_attained a Ha) as [x [Ix Ex]]. rewrite Ex.
    apply Qabs_between; [apply L1|apply L2]; exact Ix.
Qed.

Lemma maxabs_list_nonneg_list l : (forall x, In x l -> 0 <= x)%Q -> l <> [] -> (Qmax_list 0 l == maxabs_list l)%Q.
Proof.
  intros Hp Hl. destruct (Qmax_list_spec 0 l Hl) as [L I].
  apply Qle_antisym.
  - pose proof (maxabs_list_ub l _ I). pose proof (Qle_Qabs (Qmax_list 0 l)). lra.
  - destruct (maxabs_list_attained l Hl) as [x [Ix Ex]]. rewrite Ex, Qabs_pos by (apply Hp; exact Ix). apply L; exact Ix.
Qed.

Lemma Qmax_ext a a' b b' : (a == a' -> b == b' -> Qmax a b == Qmax a' b')%Q.
Proof.
  intros Ha Hb. pose proof (Qmax_ge_l a b). pose proof (Qmax_ge_r a b).
  pose proof (Qmax_ge_l a' b'). pose proof (Qmax_ge_r a' b').
  destruct (Qmax_cases a b) as [E|E], (Qmax_cases a' b') as [E'|E']; rewrite E, E' in *; lra.
Qed.

Lemma maxabs_list_ext l : forall r, Forall2 Qeq l r -> (maxabs_list l == maxabs_list r)%Q.
Proof.
  induction l as [|x t IH]; intros r H; inversion H; subst; [reflexivity|].
  cbn [maxabs_list fold_right]. fold (maxabs_list t). fold (maxabs_list l').
  apply Qmax_ext; [rewrite H2; reflexivity|apply IH; exact H4].
Qed.

Theorem maxabs_code_model arrays :
  arrays <> [] -> (forall a, In a arrays -> a <> []) -> (maxabs_code arrays == maxabs arrays)%Q.
Proof.
  intros Hne Ha. unfold maxabs_code, maxabs.
  rewrite maxabs_list_nonneg_list.
  - apply maxabs_list_ext. induction arrays as [|a t IH]; [constructor|]. cbn [map]. constructor.
    + apply maxabs1_code_eq. apply Ha. left. reflexivity.
    + destruct t as [|b u]; [constructor|]. apply IH; [discriminate|]. intros c Hc. apply Ha. right. exact Hc.
  - intros x Hx. apply in_map_iff in Hx as [a [<- Hin]]. rewrite (maxabs1_code_eq a (Ha a Hin)). apply maxabs_list_nonneg.
  - destruct arrays; [congruence|discriminate].
Qed.
