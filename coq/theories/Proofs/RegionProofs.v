(** Proofs about regions, bounds and point-in-region tests (C13). *)
From Coq Require Import QArith Qround Qabs ZArith List Bool Lia Lqa Morphisms.
From Verde Require Import Lib.Dyadic Lib.QExtra Model.Coordinates Proofs.CoordinatesProofs.
Import ListNotations.
Open Scope Q_scope.

Lemma check_region_iff r :
  check_region r = true <-> exists w e s n, r = [w; e; s; n] /\ w <= e /\ s <= n.
Proof.
  split.
  - destruct r as [|w [|e [|s [|n [|? ?]]]]]; try discriminate.
    cbn. rewrite andb_true_iff, !Qleb_spec. intros [H1 H2]. exists w, e, s, n. auto.
  - intros [w [e [s [n [-> [H1 H2]]]]]]. cbn. rewrite andb_true_iff, !Qleb_spec. auto.
Qed.

Lemma inside1_iff w e s n x y :
  inside1 (w, e, s, n) x y = true <-> (w <= x /\ x <= e) /\ (s <= y /\ y <= n).
Proof. unfold inside1. rewrite !andb_true_iff, !Qleb_spec. tauto. Qed.

(** [inside] is exactly the closed-box predicate, element-wise, one output per input *)
Theorem inside_iff r east north bs :
  length east = length north ->
  inside r east north = Some bs ->
  exists w e s n, r = [w; e; s; n] /\ w <= e /\ s <= n /\
    length bs = length east /\
    forall i, (i < length east)%nat ->
      (nth i bs false = true <->
       (w <= nth i east 0 /\ nth i east 0 <= e) /\ (s <= nth i north 0 /\ nth i north 0 <= n)).
Proof.
  intros Hlen. unfold inside.
  destruct r as [|w [|e [|s [|n [|? ?]]]]]; try discriminate.
  destruct (check_region [w; e; s; n]) eqn:Hc; [|discriminate].
  apply check_region_iff in Hc as [w' [e' [s' [n' [E [H1 H2]]]]]]. injection E as <- <- <- <-.
  intros H. injection H as <-. exists w, e, s, n.
  split; [reflexivity|]. split; [exact H1|]. split; [exact H2|]. split.
  - rewrite map_length, combine_length. lia.
  - intros i Hi. rewrite (nth_map_const _ _ _ _ (0, 0)) by (rewrite combine_length; lia).
    rewrite combine_nth by exact Hlen. cbn [fst snd]. apply inside1_iff.
Qed.

Theorem inside_rejects r east north : check_region r = false -> inside r east north = None.
Proof.
  intros H. unfold inside. destruct r as [|w [|e [|s [|n [|? ?]]]]]; try reflexivity. rewrite H. reflexivity.
Qed.

(** ** tight bounding box *)
Lemma Qmin_le_l a b : Qmin a b <= a.
Proof. unfold Qmin. destruct (Qleb a b) eqn:E; [lra|]. assert (~ a <= b) by (rewrite <- Qleb_spec; congruence). lra. Qed.
Lemma Qmin_le_r a b : Qmin a b <= b.
Proof. unfold Qmin. destruct (Qleb a b) eqn:E; [apply Qleb_spec; exact E|lra]. Qed.
Lemma Qmin_cases a b : Qmin a b = a \/ Qmin a b = b.
Proof. unfold Qmin. destruct (Qleb a b); auto. Qed.
Lemma Qmax_ge_l a b : a <= Qmax a b.
Proof. unfold Qmax. destruct (Qleb a b) eqn:E; [apply Qleb_spec; exact E|lra]. Qed.
Lemma Qmax_ge_r a b : b <= Qmax a b.
Proof. unfold Qmax. destruct (Qleb a b) eqn:E; [lra|]. assert (~ a <= b) by (rewrite <- Qleb_spec; congruence). lra. Qed.
Lemma Qmax_cases a b : Qmax a b = a \/ Qmax a b = b.
Proof. unfold Qmax. destruct (Qleb a b); auto. Qed.

Lemma fold_min_spec t : forall x,
  (fold_left Qmin t x <= x /\ forall y, In y t -> fold_left Qmin t x <= y) /\
  In (fold_left Qmin t x) (x :: t).
Proof.
  induction t as [|y t IH]; intros x; cbn [fold_left].
  - split; [split; [lra|intros ? []]|left; reflexivity].
  - destruct (IH (Qmin x y)) as [[H1 H2] H3]. split; [split|].
    + pose proof (Qmin_le_l x y). lra.
    + intros z [<-|Hz]; [pose proof (Qmin_le_r x y); lra|apply H2; exact Hz].
    + destruct H3 as [H3|H3]; [|right; right; exact H3].
      rewrite <- H3. destruct (Qmin_cases x y) as [-> | ->]; [left|right; left]; reflexivity.
Qed.

Lemma fold_max_spec t : forall x,
  (x <= fold_left Qmax t x /\ forall y, In y t -> y <= fold_left Qmax t x) /\
  In (fold_left Qmax t x) (x :: t).
Proof.
  induction t as [|y t IH]; intros x; cbn [fold_left].
  - split; [split; [lra|intros ? []]|left; reflexivity].
  - destruct (IH (Qmax x y)) as [[H1 H2] H3]. split; [split|].
    + pose proof (Qmax_ge_l x y). lra.
    + intros z [<-|Hz]; [pose proof (Qmax_ge_r x y); lra|apply H2; exact Hz].
    + destruct H3 as [H3|H3]; [|right; right; exact H3].
      rewrite <- H3. destruct (Qmax_cases x y) as [-> | ->]; [left|right; left]; reflexivity.
Qed.

Lemma Qmin_list_spec d l : l <> [] ->
  (forall y, In y l -> Qmin_list d l <= y) /\ In (Qmin_list d l) l.
Proof.
  destruct l as [|x t]; [congruence|intros _]. cbn [Qmin_list].
  destruct (fold_min_spec t x) as [[H1 H2] H3]. split; [|exact H3].
  intros y [<-|Hy]; [exact H1|apply H2; exact Hy].
Qed.
Lemma Qmax_list_spec d l : l <> [] ->
  (forall y, In y l -> y <= Qmax_list d l) /\ In (Qmax_list d l) l.
Proof.
  destruct l as [|x t]; [congruence|intros _]. cbn [Qmax_list].
  destruct (fold_max_spec t x) as [[H1 H2] H3]. split; [|exact H3].
  intros y [<-|Hy]; [exact H1|apply H2; exact Hy].
Qed.

(** the region of a cloud is tight: every point is within it and every bound
    is attained by some point *)
Theorem get_region_tight east north w e s n :
  get_region east north = Some (w, e, s, n) ->
  (forall x, In x east -> w <= x /\ x <= e) /\ (forall y, In y north -> s <= y /\ y <= n) /\
  In w east /\ In e east /\ In s north /\ In n north.
Proof.
  unfold get_region. destruct east as [|x0 te]; [discriminate|]. destruct north as [|y0 tn]; [discriminate|].
  intros H. injection H as <- <- <- <-.
  destruct (Qmin_list_spec 0 (x0 :: te) ltac:(discriminate)) as [A1 A2].
  destruct (Qmax_list_spec 0 (x0 :: te) ltac:(discriminate)) as [B1 B2].
  destruct (Qmin_list_spec 0 (y0 :: tn) ltac:(discriminate)) as [C1 C2].
  destruct (Qmax_list_spec 0 (y0 :: tn) ltac:(discriminate)) as [D1 D2].
  repeat split; auto.
Qed.

(** every point is inside its own bounding region *)
Theorem inside_own_region east north w e s n bs :
  length east = length north ->
  get_region east north = Some (w, e, s, n) ->
  inside [w; e; s; n] east north = Some bs ->
  forall i, (i < length east)%nat -> nth i bs false = true.
Proof.
  intros Hlen Hg Hi i Hlt.
  destruct (get_region_tight _ _ _ _ _ _ Hg) as [He [Hn _]].
  destruct (inside_iff _ _ _ _ Hlen Hi) as [w' [e' [s' [n' [E [_ [_ [_ Hb]]]]]]]].
  injection E as <- <- <- <-. apply Hb; [exact Hlt|].
  split; [apply He|apply Hn]; apply nth_In; lia.
Qed.

Theorem get_region_valid east north w e s n :
  get_region east north = Some (w, e, s, n) -> check_region [w; e; s; n] = true.
Proof.
  intros Hg. destruct (get_region_tight _ _ _ _ _ _ Hg) as [He [Hn [Hw _]]].
  apply check_region_iff. exists w, e, s, n. split; [reflexivity|].
  destruct (get_region_tight _ _ _ _ _ _ Hg) as [_ [_ [_ [_ [Hs _]]]]].
  split; [apply (He w Hw)|apply (Hn s Hs)].
Qed.

(** ** padding *)
Definition region_eq (a b : Q * Q * Q * Q) : Prop :=
  let '(w1, e1, s1, n1) := a in let '(w2, e2, s2, n2) := b in
  w1 == w2 /\ e1 == e2 /\ s1 == s2 /\ n1 == n2.

Theorem pad_moves_outwards w e s n pn pe :
  pad_region (w, e, s, n) pn pe = (w - pe, e + pe, s - pn, n + pn).
Proof. reflexivity. Qed.

Theorem pad_unpad r pn pe : region_eq (pad_region (pad_region r pn pe) (- pn) (- pe)) r.
Proof. destruct r as [[[w e] s] n]. cbn. repeat split; ring. Qed.

(** ** nodes of regular grids lie inside the requested region *)
Lemma linspace_bounds a b n x : a <= b -> In x (linspace a b n) -> a <= x /\ x <= b.
Proof.
  intros Hab Hx. apply (In_nth _ _ 0) in Hx as [i [Hi <-]]. rewrite linspace_length in Hi.
  destruct n as [|[|m]]; [lia| |].
  - cbn [linspace] in *. assert (i = 0)%nat by lia. subst i. cbn. lra.
  - rewrite linspace_nth by lia.
    replace (S (S m) - 1)%nat with (S m) by lia.
    pose proof (inject_nat_pos (S m) ltac:(lia)) as P.
    assert (I0: 0 <= inject_Z (Z.of_nat i)). { change 0 with (inject_Z 0). rewrite <- Zle_Qle. lia. }
    assert (I1: inject_Z (Z.of_nat i) <= inject_Z (Z.of_nat (S m))). { rewrite <- Zle_Qle. lia. }
    set (k := inject_Z (Z.of_nat (S m))) in *. set (j := inject_Z (Z.of_nat i)) in *. clearbody k j.
    assert (E: j * ((b - a) / k) == (j / k) * (b - a)) by (field; lra).
    rewrite E.
    assert (T0: 0 <= j / k) by (apply Qle_shift_div_l; lra).
    assert (T1: j / k <= 1) by (apply Qle_shift_div_r; lra).
    set (t := j / k) in *. clearbody t. split; nra.
Qed.

Lemma pixel_bounds a b n p x : a <= b -> pixel_shift (linspace a b n) = Some p -> In x p ->
  a <= x /\ x <= b.
Proof.
  intros Hab Hp Hx. destruct (pixel_shift_spec _ _ Hp) as [Hl Hi]. rewrite linspace_length in *.
  apply (In_nth _ _ 0) in Hx as [i [Hlt <-]]. rewrite Hl in Hlt. rewrite Hi by exact Hlt.
  assert (Hn: (2 <= n)%nat) by lia.
  pose proof (linspace_step a b n 0 Hn ltac:(lia)) as S0.
  pose proof (linspace_step a b n i Hn ltac:(lia)) as Si.
  assert (Bi: In (nth i (linspace a b n) 0) (linspace a b n)) by (apply nth_In; rewrite linspace_length; lia).
  assert (Bj: In (nth (S i) (linspace a b n) 0) (linspace a b n)) by (apply nth_In; rewrite linspace_length; lia).
  apply (linspace_bounds _ _ _ _ Hab) in Bi. apply (linspace_bounds _ _ _ _ Hab) in Bj.
  set (st := (b - a) / inject_Z (Z.of_nat (n - 1))) in *. clearbody st.
  set (a0 := nth 0 (linspace a b n) 0) in *. set (a1 := nth 1 (linspace a b n) 0) in *.
  set (ai := nth i (linspace a b n) 0) in *. set (aj := nth (S i) (linspace a b n) 0) in *.
  clearbody a0 a1 ai aj. unfold Qdiv. change (/ 2) with (1#2). split; lra.
Qed.

(** with a shape, or a spacing adjusted to the region (adjust = "spacing"),
    every node of [line_coordinates] lies in [start, stop], both registrations *)
Theorem line_nodes_inside start stop size spacing pix v x :
  start <= stop -> (forall sp, spacing = Some sp -> 0 < sp) ->
  line_coordinates start stop size spacing 0 pix = Some v -> In x v ->
  start <= x /\ x <= stop.
Proof.
  intros Hle Hsp. unfold line_coordinates.
  destruct size as [n|], spacing as [sp|]; try discriminate.
  - destruct pix; intros H Hx.
    + eapply pixel_bounds; eauto.
    + injection H as <-. eapply linspace_bounds; eauto.
  - destruct (spacing_to_size start stop sp 0) as [[n stop']|] eqn:Es; [|discriminate].
    destruct (sts_spec _ _ _ _ _ _ Hle (Hsp _ eq_refl) Es) as [_ [Hs _]]. specialize (Hs eq_refl). subst stop'.
    destruct pix; intros H Hx.
    + eapply pixel_bounds; eauto.
    + injection H as <-. eapply linspace_bounds; eauto.
Qed.

Theorem grid_nodes_inside w e s n shape spacing pix extra mesh g :
  (forall sp, spacing = Some sp -> Forall (fun x => 0 < x) sp) ->
  grid_coordinates [w; e; s; n] shape spacing 0 pix extra mesh = Some g ->
  (forall x, In x (g_east1 g) -> w <= x /\ x <= e) /\
  (forall y, In y (g_north1 g) -> s <= y /\ y <= n).
Proof.
  intros Hsp. unfold grid_coordinates.
  destruct (check_region [w; e; s; n]) eqn:Hc; [|discriminate]. cbn [negb].
  apply check_region_iff in Hc as [w' [e' [s' [n' [E [H1 H2]]]]]]. injection E as <- <- <- <-.
  match goal with |- match ?d with _ => _ end = _ -> _ => destruct d as [[[[se sn] spe] spn]|] eqn:Ed; [|discriminate] end.
  destruct (line_coordinates w e se spe 0 pix) as [east|] eqn:Ee; [|discriminate].
  destruct (line_coordinates s n sn spn 0 pix) as [north|] eqn:En; [|discriminate].
  assert (Pe: forall sp, spe = Some sp -> 0 < sp).
  { intros sp ->. destruct shape as [[? ?]|], spacing as [[|a [|b [|? ?]]]|]; try discriminate;
      injection Ed as _ _ <- _; specialize (Hsp _ eq_refl).
    - inversion Hsp; assumption.
    - inversion Hsp as [|? ? _ Hb]. inversion Hb; assumption. }
  assert (Pn: forall sp, spn = Some sp -> 0 < sp).
  { intros sp ->. destruct shape as [[? ?]|], spacing as [[|a [|b [|? ?]]]|]; try discriminate;
      injection Ed as _ _ _ <-; specialize (Hsp _ eq_refl); inversion Hsp; assumption. }
  intros H.
  assert (Hg: g_east1 g = east /\ g_north1 g = north).
  { destruct extra, mesh; try discriminate; injection H as <-; cbn; auto. }
  destruct Hg as [-> ->]. split; intros x Hx.
  - exact (line_nodes_inside w e se spe pix east x H1 Pe Ee Hx).
  - exact (line_nodes_inside s n sn spn pix north x H2 Pn En Hx).
Qed.

(** scatter_points: lower + (upper - lower) * u with 0 <= u < 1 is inside *)
Theorem scatter_inside lower upper u : lower <= upper -> 0 <= u -> u < 1 ->
  lower <= lower + (upper - lower) * u /\ lower + (upper - lower) * u <= upper.
Proof. intros. split; nra. Qed.

(** ** maxabs *)

(** [maxabs] is an upper bound of every |x| and is attained (up to ==) *)
Lemma maxabs_list_ub l : forall x, In x l -> Qabs x <= maxabs_list l.
Proof.
  induction l as [|x t IH]; cbn [maxabs_list fold_right]; [intros ? []|]. fold (maxabs_list t).
  intros y [<-|Hy]; [apply Qmax_ge_l|]. pose proof (Qmax_ge_r (Qabs x) (maxabs_list t)). specialize (IH y Hy). lra.
Qed.

Lemma maxabs_list_nonneg l : 0 <= maxabs_list l.
Proof.
  destruct l as [|x t]; cbn [maxabs_list fold_right]; [lra|]. fold (maxabs_list t).
  pose proof (Qmax_ge_l (Qabs x) (maxabs_list t)). pose proof (Qabs_nonneg x). lra.
Qed.

Lemma maxabs_list_attained l : l <> [] -> exists x, In x l /\ maxabs_list l == Qabs x.
Proof.
  induction l as [|x t IH]; [congruence|intros _]. cbn [maxabs_list fold_right]. fold (maxabs_list t).
  destruct t as [|y t'].
  - exists x. split; [left; reflexivity|]. cbn [maxabs_list fold_right]. unfold Qmax.
    destruct (Qleb (Qabs x) 0) eqn:El; [|reflexivity].
    apply Qleb_spec in El. pose proof (Qabs_nonneg x). lra.
  - destruct (Qmax_cases (Qabs x) (maxabs_list (y :: t'))) as [E|E]; rewrite E.
    + exists x. split; [left; reflexivity|reflexivity].
    + destruct (IH ltac:(discriminate)) as [z [Hz Ez]]. exists z. split; [right; exact Hz|exact Ez].
Qed.

Theorem maxabs_spec arrays :
  (forall a x, In a arrays -> In x a -> Qabs x <= maxabs arrays) /\
  ((exists a, In a arrays /\ a <> []) ->
   exists a x, In a arrays /\ In x a /\ maxabs arrays == Qabs x).
Proof.
  unfold maxabs. split.
  - intros a x Ha Hx.
    pose proof (maxabs_list_ub a x Hx) as H1.
    pose proof (maxabs_list_ub (map maxabs_list arrays) (maxabs_list a) (in_map _ _ _ Ha)) as H2.
    rewrite (Qabs_pos (maxabs_list a)) in H2 by apply maxabs_list_nonneg. lra.
  - intros [a0 [Ha0 Hne]].
    destruct (maxabs_list_attained (map maxabs_list arrays)) as [m [Hm Em]].
    { destruct arrays; [destruct Ha0|discriminate]. }
    apply in_map_iff in Hm as [a [<- Ha]].
    rewrite (Qabs_pos (maxabs_list a)) in Em by apply maxabs_list_nonneg.
    destruct a as [|x t].
    + (* the maximum is attained by an empty array only if everything is 0 *)
      destruct a0 as [|x0 t0]; [congruence|].
      exists (x0 :: t0), x0. split; [exact Ha0|]. split; [left; reflexivity|].
      cbn [maxabs_list fold_right] in Em.
      pose proof (maxabs_list_ub (x0 :: t0) x0 (or_introl eq_refl)) as U1.
      pose proof (maxabs_list_ub (map maxabs_list arrays) (maxabs_list (x0 :: t0)) (in_map _ _ _ Ha0)) as U2.
      rewrite (Qabs_pos (maxabs_list (x0 :: t0))) in U2 by apply maxabs_list_nonneg.
      pose proof (Qabs_nonneg x0). lra.
    + destruct (maxabs_list_attained (x :: t) ltac:(discriminate)) as [z [Hz Ez]].
      exists (x :: t), z. split; [exact Ha|]. split; [exact Hz|]. lra.
Qed.
