(** The two models of verde.Trend say the same.

    Model/Trend.v (C03; the model the source-regenerated theorems [src_Trend_predict_eq] and
    [src_Trend_jacobian_eq] of harness/pylite_trend_methods.v.tmpl tie Trend.predict / Trend.jacobian to)
    follows the code: monomials [qpow e i * qpow n j] in the order of the stable sort, predictions
    accumulated column by column.  Model/LeastSquares.v (C02, C01: [trend_recovers_polynomial]) writes the
    Jacobian with [Qpower] over the closed-form monomial order and the prediction as Jacobian times
    coefficients.  Here: the orders are equal, the Jacobians are equal entry by entry ([Qeq]), and so are the
    predictions.  Hence: source = Model/Trend.v (re-proved on every run) = Model/LeastSquares.v (here). *)
From Coq Require Import QArith Qpower ZArith List Lia Morphisms Setoid.
From Verde Require Import Lib.LinAlgQ Model.Trend Model.LeastSquares Proofs.TrendProofs.
Import ListNotations.
Open Scope Q_scope.

Theorem combos_same N : Trend.power_combinations N = LeastSquares.power_combinations N.
Proof.
  rewrite combos_closed_form. unfold by_degree, LeastSquares.power_combinations, powers_of_total.
  rewrite Nat.add_1_r. apply flat_map_ext. intros d. rewrite Nat.add_1_r. reflexivity.
Qed.

Lemma qpow_Qpow x k : Trend.qpow x k == Qpow x k.
Proof.
  unfold Qpow. induction k as [|k IH]; [reflexivity|].
  cbn [qpow]. rewrite IH, Nat2Z.inj_succ. unfold Z.succ. rewrite Qpower_plus' by lia.
  change (Qpower x 1) with x. ring.
Qed.

Lemma trend_row_same N e n : veq (trend_row N e n) (monomials N (e, n)).
Proof.
  unfold trend_row, monomials. rewrite combos_same. cbn [fst snd].
  induction (LeastSquares.power_combinations N) as [|c t IH]; cbn [map]; constructor; [|exact IH].
  unfold monomial. rewrite !qpow_Qpow. reflexivity.
Qed.

(** Trend.jacobian: the same matrix in both models *)
Theorem trend_jacobian_same N east north :
  Forall2 veq (Trend.trend_jacobian N east north) (LeastSquares.trend_jacobian N (combine east north)).
Proof.
  unfold Trend.trend_jacobian, LeastSquares.trend_jacobian.
  induction (combine east north) as [|[e n] t IH]; cbn [map fst snd]; constructor; [|exact IH].
  apply trend_row_same.
Qed.

Lemma dot_same a : forall b, Trend.dot a b = LinAlgQ.dot a b.
Proof. intros b. reflexivity. Qed.   (* the two fixpoints are the same term *)

Lemma veq_of_nth (a : list Q) : forall b, length a = length b ->
  (forall i, (i < length a)%nat -> nth i a 0 == nth i b 0) -> veq a b.
Proof.
  induction a as [|x a IH]; intros [|y b] L H; try discriminate; constructor.
  - apply (H 0%nat). cbn [length]. lia.
  - apply IH; [injection L as L; exact L|]. intros i Hi. apply (H (S i)). cbn [length]. lia.
Qed.

(** Trend.predict: the column-by-column accumulation is Jacobian times coefficients *)
Theorem trend_predict_same N coef east north :
  veq (Trend.trend_predict N coef east north) (LeastSquares.trend_predict N coef (combine east north)).
Proof.
  destruct (trend_predict_is_polynomial N coef east north) as [L H]. cbv zeta in L, H.
  unfold LeastSquares.trend_predict, LinAlgQ.mv, LeastSquares.trend_jacobian. rewrite map_map.
  apply veq_of_nth.
  - rewrite L, map_length. reflexivity.
  - intros i Hi. rewrite L in Hi. rewrite (H i Hi).
    rewrite (nth_map_in (fun p => LinAlgQ.dot (monomials N p) coef) _ _ 0 (0, 0)) by exact Hi.
    rewrite dot_same. destruct (nth i (combine east north) (0, 0)) as [e n]. cbn [fst snd].
    apply dot_proper; [apply trend_row_same|reflexivity].
Qed.

Print Assumptions trend_jacobian_same.
Print Assumptions trend_predict_same.
