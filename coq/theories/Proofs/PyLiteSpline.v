(** Source-independent lemmas for the source-regenerated ties of the spline family
    (harness/pylite_vspline.v.tmpl: verde/vector.py VectorSpline2D, C02).  The definitions and lemmas up to
    [fill_all_arr2] are those of harness/pylite_trend_methods.v.tmpl / harness/pylite_spline.v.tmpl (which are
    regenerated in one file with the Trend ties for C03 and therefore keep their own copies); compiled once here so
    that the C02 tie does not pay for them on every run. *)
From Coq Require Import QArith Qround Qabs ZArith List Bool String Lia Lqa.
From Verde Require Import Lib.QExtra Model.Coordinates Lib.PyLite Model.Trend Proofs.TrendProofs Proofs.PyLiteBridge.
Import ListNotations.
Open Scope string_scope.

Definition tok_dtype : val := VS "<dtype>".
Definition tok_float : val := VS "<dtype:float>".
Definition is_dtype_tok (v : val) : bool :=
  match v with VS s => String.eqb s "<dtype>" || String.eqb s "<dtype:float>" || String.eqb s "<np.float32>" | _ => false end.
Definition is_np_float32 (v : val) : bool := match v with VS s => String.eqb s "<np.float32>" | _ => false end.
Definition is_float_dtype (v : val) : bool :=
  match v with VS s => String.eqb s "<dtype:float>" || String.eqb s "float64" | _ => false end.

(* numpy's broadcasting of two operands to a common 1-D shape: two 1-D arrays of the same length, or a number
   and a 1-D array (the number is repeated).  Two numbers (shape ()), a length-1 array against a longer one and
   more dimensions are not specified here (Stuck). *)
Definition is_num (v : val) : bool := match v with VZ _ | VQ _ => true | _ => false end.
Definition bcast2 (a b : val) : option (list val * list val) :=
  match a, b with
  | VA l, VA r => if all_scalar l && all_scalar r && Nat.eqb (List.length l) (List.length r) then Some (l, r) else None
  | VA l, _ => if all_scalar l && is_num b then Some (l, repeat b (List.length l)) else None
  | _, VA r => if is_num a && all_scalar r then Some (repeat a (List.length r), r) else None
  | _, _ => None
  end.

(* junk: what np.empty happens to contain *)
Definition junk_rows (junk : nat -> nat -> Q) (n m : nat) : list val :=
  map (fun r => VA (map (fun k => VQ (junk r k)) (seq 0 m))) (seq 0 n).

Ltac nxt :=
  lazymatch goal with
  | |- context [exec_list ?u_ [?st_] ?en_] =>
      change (exec_list u_ [st_] en_) with (match exec u_ st_ en_ with Normal env' => Normal env' | o => o end)
  | |- context [exec_list ?u_ (?st_ :: ?tl_) ?en_] =>
      change (exec_list u_ (st_ :: tl_) en_)
        with (match exec u_ st_ en_ with Normal env' => exec_list u_ tl_ env' | o => o end);
      let r := fresh "rest" in let h := fresh "Hrest" in remember (exec_list u_ tl_) as r eqn:h
  end.
Ltac fin := match goal with H : ?r = exec_list _ _ |- _ => subst r end.
(* the next statement, unless it is a loop or the last one (those are handled by hand) *)
Ltac nxt_plain :=
  lazymatch goal with
  | |- context [exec_list _ (SFor _ _ _ :: _) _] => fail
  | |- context [exec_list ?u_ (?st_ :: ?t1_ :: ?tl_) ?en_] =>
      change (exec_list u_ (st_ :: t1_ :: tl_) en_)
        with (match exec u_ st_ en_ with Normal env' => exec_list u_ (t1_ :: tl_) env' | o => o end);
      let r := fresh "rest" in let h := fresh "Hrest" in remember (exec_list u_ (t1_ :: tl_)) as r eqn:h;
      try rewrite exec_SIf
  end.
(* the body of the first loop of a function *)
Fixpoint first_for (l : list stmt) : list stmt :=
  match l with SFor _ _ b :: _ => b | _ :: t => first_for t | [] => [] end.
Arguments comp_loop : simpl nomatch.
Arguments map : simpl nomatch.
Arguments Z.eqb : simpl nomatch.
Arguments Z.leb : simpl nomatch.
Arguments Z.to_nat : simpl nomatch.
Arguments Z.ltb : simpl nomatch.
Ltac evh :=
  repeat (progress (cbn -[run as_callee exec_list for_loop norm_index nth_val set_nth binop_val arr all_scalar to_array
                          Z.of_nat Z.add List.length enumerate_from combine repeat junk_rows set_col vnat run_kw arr2 Qmin_list Qmax_list bcast2 zipn];
                    repeat match goal with
                           | |- context [exec_list ?u_ [] ?e_] => change (exec_list u_ [] e_) with (Normal e_)
                           | |- context [Pos.to_nat 2] => change (Pos.to_nat 2) with 2%nat
                           end)).

Lemma all_scalar_arr q : all_scalar (map VQ q) = true.
Proof. apply all_scalar_VQ. Qed.

Lemma mul_arr_scalar (a : list Q) (f : Q) :
  binop_val Mul (arr a) (VQ f) = Some (arr (map (fun x => (x * f)%Q) a)).
Proof.
  unfold binop_val, arr. cbn [bc_l]. rewrite map_map.
  rewrite (map_opt_map_some _ _ (fun x => VQ (x * f)%Q)); reflexivity.
Qed.

Lemma map_repeat' {A B} (f : A -> B) x n : map f (repeat x n) = repeat (f x) n.
Proof. induction n as [|n IH]; [reflexivity|]. cbn [repeat map]. rewrite IH. reflexivity. Qed.

Lemma axpy_eq (acc : list Q) : forall col f, List.length acc = List.length col ->
  map (fun p => (fst p + snd p)%Q) (combine acc (map (fun x => (x * f)%Q) col)) = axpy acc col f.
Proof.
  induction acc as [|a t IH]; intros [|g u] f H; try discriminate; [reflexivity|].
  cbn [map combine fst snd axpy]. rewrite IH by (injection H as H; exact H). reflexivity.
Qed.

Lemma axpy_length (acc : list Q) : forall col f, List.length acc = List.length col -> List.length (axpy acc col f) = List.length acc.
Proof.
  induction acc as [|a t IH]; intros [|g u] f H; try discriminate; [reflexivity|].
  cbn [axpy List.length]. rewrite IH by (injection H as H; exact H). reflexivity.
Qed.

Lemma junk_rows_arr2 junk n m : VA (junk_rows junk n m) = arr2 (map (fun r => map (junk r) (seq 0 m)) (seq 0 n)).
Proof.
  unfold junk_rows, arr2. rewrite map_map. f_equal. apply map_ext. intros r. rewrite map_map. reflexivity.
Qed.

Open Scope Q_scope.
Definition map2Q (G : Q -> Q -> Q -> Q) (md : Q) (a b : list Q) : list Q :=
  map (fun p => G (fst p) (snd p) md) (combine a b).

Definition green1 (G : Q -> Q -> Q -> Q) (md : Q) (l r : list val) : option val :=
  match unQ l, unQ r with
  | Some a, Some b => if Nat.eqb (List.length a) (List.length b) then Some (arr (map2Q G md a b)) else None
  | _, _ => None
  end.

Definition green_val (G : Q -> Q -> Q -> Q) (dx dy mdv : val) : option val :=
  match dx, dy, toQ mdv with
  | VA l, VA r, Some md =>
      if all_scalar l then green1 G md l r
      else if Nat.eqb (List.length l) (List.length r)
           then option_map VA (map_opt (fun p => match p with (VA a, VA b) => green1 G md a b | _ => None end) (combine l r))
           else None
  | _, _, _ => None
  end.

Definition user_green (G : Q -> Q -> Q -> Q) : string -> option (list val -> option (option val)) :=
  fun f =>
    if String.eqb f "greens_func_numpy" then
      Some (fun args => match args with
                        | [dx; dy; md] => match green_val G dx dy md with Some v => Some (Some v) | None => None end
                        | _ => None end)
    else None.

(* the kernel table of the model: entry (i, j) = G applied to the coordinate differences data point i - force j *)
Definition skern (G : Q -> Q -> Q -> Q) (east north fe fn : list Q) (md : Q) (i j : nat) : Q :=
  G (nth i east 0 - nth j fe 0) (nth i north 0 - nth j fn 0) md.

Ltac evs :=
  repeat (progress (cbn -[run as_callee exec_list for_loop norm_index nth_val set_nth binop_val arr all_scalar to_array
                          Z.of_nat Z.add List.length enumerate_from combine repeat junk_rows set_col vnat run_kw arr2 Qmin_list Qmax_list bcast2 zipn
                          green_val fill_all binop_outer skern predict_loop cols_of jac_of zeros seq];
                    repeat match goal with
                           | |- context [exec_list ?u_ [] ?e_] => change (exec_list u_ [] e_) with (Normal e_)
                           | |- context [Pos.to_nat 2] => change (Pos.to_nat 2) with 2%nat
                           end)).

(* lists indexed by position *)
Lemma map_nth_seq {A} (f : Q -> A) (l : list Q) : map (fun i => f (nth i l 0)) (seq 0 (List.length l)) = map f l.
Proof.
  induction l as [|x t IH]; [reflexivity|]. cbn [List.length seq map nth]. rewrite <- seq_shift, map_map. cbn [nth].
  rewrite IH. reflexivity.
Qed.

Lemma map_nth_seq2 {A} (f : Q -> Q -> A) (a : list Q) : forall b, List.length a = List.length b ->
  map (fun i => f (nth i a 0) (nth i b 0)) (seq 0 (List.length a)) = map (fun p => f (fst p) (snd p)) (combine a b).
Proof.
  induction a as [|x t IH]; intros [|y u] H; try discriminate; [reflexivity|].
  cbn [List.length seq map nth combine fst snd]. rewrite <- seq_shift, map_map. cbn [nth].
  rewrite IH by (injection H as H; exact H). reflexivity.
Qed.

(* one row / one column of the table, as the code computes them *)
Lemma row_of_skern G east north fe fn md i : List.length fe = List.length fn ->
  row_of (skern G east north fe fn md) (List.length fe) i =
  map2Q G md (map (fun y => nth i east 0 - y) fe) (map (fun y => nth i north 0 - y) fn).
Proof.
  intros H. unfold row_of, skern, map2Q. rewrite (map_nth_seq2 (fun a b => G (nth i east 0 - a) (nth i north 0 - b) md) fe fn H).
  rewrite combine_map, map_map. reflexivity.
Qed.

Lemma col_of_skern G east north fe fn md j : List.length east = List.length north ->
  col_of (skern G east north fe fn md) (List.length east) j =
  map2Q G md (map (fun x => x - nth j fe 0) east) (map (fun x => x - nth j fn 0) north).
Proof.
  intros H. unfold col_of, skern, map2Q. rewrite (map_nth_seq2 (fun a b => G (a - nth j fe 0) (b - nth j fn 0) md) east north H).
  rewrite combine_map, map_map. reflexivity.
Qed.

Lemma map2Q_length G md a b : List.length a = List.length b -> List.length (map2Q G md a b) = List.length a.
Proof. intros H. unfold map2Q. rewrite map_length, combine_length, H. apply Nat.min_id. Qed.

(* the specification of the kernel on float arrays *)
Lemma green1_arr G md a b : List.length a = List.length b ->
  green1 G md (map VQ a) (map VQ b) = Some (arr (map2Q G md a b)).
Proof. intros H. unfold green1. rewrite !unQ_VQ, H, Nat.eqb_refl. reflexivity. Qed.

Lemma green_val_arr G mdv md a b : toQ mdv = Some md -> List.length a = List.length b ->
  green_val G (arr a) (arr b) mdv = Some (arr (map2Q G md a b)).
Proof. intros Hm H. unfold green_val, arr. rewrite Hm, all_scalar_VQ. apply green1_arr. exact H. Qed.

Lemma Forall2_len {A B} (R : A -> B -> Prop) l r : Forall2 R l r -> List.length l = List.length r.
Proof. induction 1; [reflexivity|]. cbn [List.length]. congruence. Qed.

Lemma green_val_arr2 G mdv md (A B : list (list Q)) : toQ mdv = Some md -> A <> [] ->
  Forall2 (fun a b => List.length a = List.length b) A B ->
  green_val G (arr2 A) (arr2 B) mdv = Some (arr2 (map (fun p => map2Q G md (fst p) (snd p)) (combine A B))).
Proof.
  intros Hm Hne F. unfold green_val, arr2. rewrite Hm.
  destruct A as [|a0 A']; [contradiction|]. cbn [map all_scalar forallb is_scalar andb].
  change (VA (map VQ a0) :: map (fun r => VA (map VQ r)) A') with (map (fun r => VA (map VQ r)) (a0 :: A')).
  rewrite !map_length. rewrite (Forall2_len _ _ _ F), Nat.eqb_refl.
  assert (E : map_opt (fun p => match p with (VA a, VA b) => green1 G md a b | _ => None end)
                      (combine (map (fun r => VA (map VQ r)) (a0 :: A')) (map (fun r => VA (map VQ r)) B)) =
              Some (map (fun r => VA (map VQ r)) (map (fun p => map2Q G md (fst p) (snd p)) (combine (a0 :: A') B)))).
  { clear Hne. induction F as [|a b A1 B1 Hab _ IH]; [reflexivity|].
    cbn [map combine map_opt fst snd]. rewrite (green1_arr G md a b Hab), IH. reflexivity. }
  rewrite E. reflexivity.
Qed.

(* x.reshape((x.size, 1)) - y: column minus row *)
Lemma binop_col_none op (l : list val) (r : list val) : l <> [] ->
  binop_val op (VA (map (fun x => VA [x]) l)) (VA r) = None.
Proof.
  intros Hne. unfold binop_val. destruct l as [|x t]; [contradiction|]. destruct r as [|y u].
  - reflexivity.
  - cbn [map List.length]. destruct (Nat.eqb _ _); [|reflexivity]. reflexivity.
Qed.

Lemma outer_sub (a b : list Q) :
  binop_outer (arith Sub) (VA (map (fun x => VA [x]) (map VQ a))) (VA (map VQ b)) =
  Some (arr2 (map (fun x => map (fun y => x - y) b) a)).
Proof.
  unfold binop_outer, arr2. change (forallb is_scalar (map VQ b)) with (all_scalar (map VQ b)). rewrite all_scalar_VQ.
  rewrite !map_map.
  rewrite (map_opt_map_some _ _ (fun x => VA (map VQ (map (fun y => x - y) b)))); [reflexivity|].
  intros x. cbn [is_scalar]. rewrite map_map.
  rewrite (map_opt_map_some _ _ (fun y => VQ (x - y))); reflexivity.
Qed.

Lemma sub_arr_scalar (a : list Q) (x : Q) :
  binop_val Sub (arr a) (VQ x) = Some (arr (map (fun y => (y - x)%Q) a)).
Proof.
  unfold binop_val, arr. cbn [bc_l]. rewrite map_map.
  rewrite (map_opt_map_some _ _ (fun y => VQ (y - x)%Q)); reflexivity.
Qed.

(* x[:] = v *)
Lemma has_Q_arr c : c <> [] -> has_Q (arr c) = true.
Proof. intros H. destruct c; [contradiction|]. reflexivity. Qed.

Lemma fill_all_zero (c : list Q) : c <> [] -> fill_all (arr c) (VZ 0) = Some (arr (zeros (List.length c))).
Proof.
  intros H. unfold fill_all. rewrite (has_Q_arr c H), rect_arr. cbn [negb andb has_Q].
  unfold arr, zeros. cbn [fill_leaves]. f_equal. f_equal.
  clear H. induction c as [|x t IH]; [reflexivity|]. cbn [map List.length repeat fill_leaves]. rewrite IH. reflexivity.
Qed.

Lemma rect_arr2 (rows : list (list Q)) m : Forall (fun r => List.length r = m) rows -> rect (arr2 rows) = true.
Proof.
  intros F. unfold arr2. cbn [rect]. apply andb_true_intro. split.
  - induction rows as [|r t IH]; [reflexivity|]. cbn [map forallb]. change (VA (map VQ r)) with (arr r). rewrite (rect_arr r). apply IH. inversion F; assumption.
  - destruct rows as [|r t]; [reflexivity|]. cbn [map]. inversion F as [|? ? Hr Ft]; subst.
    change (VA (map VQ r)) with (arr r). rewrite shape_of_arr.
    induction Ft as [|s u Hs _ IH]; [reflexivity|]. cbn [map forallb].
    change (VA (map VQ s)) with (arr s). rewrite shape_of_arr, Hs.
    cbn [shape_eqb]. rewrite Nat.eqb_refl. apply IH. constructor; [reflexivity|]. inversion F; subst. inversion H2; assumption.
Qed.

Lemma shape_of_arr2 (r : list Q) (rows : list (list Q)) : shape_of (arr2 (r :: rows)) = [S (List.length rows); List.length r].
Proof.
  unfold arr2. cbn [map shape_of List.length]. rewrite !map_length. destruct r; reflexivity.
Qed.

Lemma to_array_arr2 cast (rows : list (list Q)) : to_array cast (arr2 rows) = Some (arr2 rows).
Proof.
  unfold arr2. cbn [to_array].
  rewrite (map_opt_map_some _ _ (fun r => VA (map VQ r))); [reflexivity|].
  intros r. cbn [to_array]. rewrite (map_opt_map_some _ _ VQ); reflexivity.
Qed.

Lemma has_Q_arr2 (x : Q) (r : list Q) rows : has_Q (arr2 ((x :: r) :: rows)) = true.
Proof. reflexivity. Qed.

Lemma fill_all_arr2 (old new : list (list Q)) (n m : nat) : (0 < n)%nat -> (0 < m)%nat ->
  List.length old = n -> List.length new = n ->
  Forall (fun r => List.length r = m) old -> Forall (fun r => List.length r = m) new ->
  fill_all (arr2 old) (arr2 new) = Some (arr2 new).
Proof.
  intros Hn Hm Lo Ln Fo Fn. unfold fill_all.
  destruct old as [|o old']; [cbn in Lo; lia|]. destruct new as [|w new']; [cbn in Ln; lia|].
  destruct o as [|x o']; [inversion Fo; subst; cbn in Hm; lia|].
  rewrite (rect_arr2 _ m Fo), (rect_arr2 _ m Fn), !shape_of_arr2.
  unfold arr2 at 1. cbn [map]. fold (arr2 ((x :: o') :: old')). rewrite has_Q_arr2. cbn [negb andb].
  inversion Fo as [|? ? Ho _]; subst. inversion Fn as [|? ? Hw _]; subst.
  cbn [List.length] in Ln, Hw. cbn [shape_eqb].
  assert (E1 : Nat.eqb (S (List.length old')) (S (List.length new')) = true) by (apply Nat.eqb_eq; lia).
  assert (E2 : Nat.eqb (S (List.length o')) (List.length w) = true) by (apply Nat.eqb_eq; lia).
  unfold arr2 at 1. cbn [map]. fold (arr2 (w :: new')).
  cbn [List.length]. rewrite E1, E2. cbn [andb]. apply to_array_arr2.
Qed.

(* jac_of as the rows the code builds *)
Lemma jac_of_skern G east north fe fn md : List.length east = List.length north -> List.length fe = List.length fn ->
  map (fun p => map2Q G md (fst p) (snd p))
      (combine (map (fun x => map (fun y => x - y) fe) east) (map (fun x => map (fun y => x - y) fn) north)) =
  jac_of (skern G east north fe fn md) (List.length east) (List.length fe).
Proof.
  intros H1 H2. unfold jac_of.
  rewrite combine_map, map_map. cbn [fst snd].
  rewrite <- (map_nth_seq2 (fun x y => map2Q G md (map (fun b => x - b) fe) (map (fun b => y - b) fn)) east north H1).
  apply map_ext. intros i. symmetry. apply row_of_skern. exact H2.
Qed.

Lemma idx_arr (a : list Q) (k : nat) : (k < List.length a)%nat ->
  norm_index (List.length (map VQ a)) (Z.of_nat k) = Some k /\ nth_val (map VQ a) k = Some (VQ (nth k a 0)).
Proof.
  intros H. split.
  - unfold norm_index. rewrite map_length.
    assert (E1 : (Z.of_nat k <? 0)%Z = false) by (apply Z.ltb_ge; lia).
    assert (E2 : (Z.of_nat (List.length a) <=? Z.of_nat k)%Z = false) by (apply Z.leb_gt; lia).
    rewrite E1. cbv zeta. rewrite E1, E2. cbn [orb]. rewrite Nat2Z.id. reflexivity.
  - revert k H. induction a as [|x t IH]; intros k H; [cbn in H; lia|].
    destruct k as [|k]; [reflexivity|]. cbn [map nth_val nth]. apply IH. cbn [List.length] in H. lia.
Qed.

Lemma seq_of_arr (a : list Q) : seq_of (arr a) = Some (map VQ a).
Proof. reflexivity. Qed.

Lemma np_array_arr (a : list Q) : np_array (arr a) = Some (arr a).
Proof.
  unfold np_array, arr. change (VA (map VQ a)) with (arr a). rewrite rect_arr. unfold arr.
  exact (to_array_arrQ _ (fun z => z) a).
Qed.

Lemma bcast2_arr (a b : list Q) : List.length a = List.length b ->
  bcast2 (VA (map VQ a)) (VA (map VQ b)) = Some (map VQ a, map VQ b).
Proof. intros H. unfold bcast2. rewrite !all_scalar_VQ, !map_length, H, Nat.eqb_refl. reflexivity. Qed.


(** * the elastic (vector) case: three kernels, block stores *)
(** greens_func_2d by specification: three arbitrary functions of (dx, dy, mindist, poisson), each applied element by
    element as [green_val] does *)
Definition fix_nu (G : Q -> Q -> Q -> Q -> Q) (nu : Q) : Q -> Q -> Q -> Q := fun x y m => G x y m nu.
Definition green2d_val (Gee Gnn Gne : Q -> Q -> Q -> Q -> Q) (dx dy mdv nuv : val) : option val :=
  match toQ nuv with
  | Some nu =>
      match green_val (fix_nu Gee nu) dx dy mdv, green_val (fix_nu Gnn nu) dx dy mdv, green_val (fix_nu Gne nu) dx dy mdv with
      | Some a, Some b, Some c => Some (VT [a; b; c])
      | _, _, _ => None
      end
  | None => None
  end.

Definition user_green2d (Gee Gnn Gne : Q -> Q -> Q -> Q -> Q) : string -> option (list val -> option (option val)) :=
  fun f =>
    if String.eqb f "greens_func_2d" then
      Some (fun args => match args with
                        | [dx; dy; md; nu] => match green2d_val Gee Gnn Gne dx dy md nu with Some v => Some (Some v) | None => None end
                        | _ => None end)
    else None.

(** x[a:b, c:d] = v on float matrices *)
Open Scope list_scope.
Definition blockQ (rows v : list (list Q)) (a b c d : nat) : list (list Q) :=
  map (fun p => if Nat.leb a (fst p) && Nat.ltb (fst p) b
                then firstn c (snd p) ++ nth (fst p - a) v [] ++ skipn d (snd p) else snd p)
      (combine (seq 0 (List.length rows)) rows).

Definition rowval (r : list Q) : val := VA (map VQ r).

Lemma set_block_rows_arr2 (v : list (list Q)) (a b c d : nat) : (b - a <= List.length v)%nat ->
  forall (rows : list (list Q)) (s : nat),
  map (fun p => if Nat.leb a (fst p) && Nat.ltb (fst p) b then
                  match snd p, nth (fst p - a) (map rowval v) VNone with
                  | VA l, VA w => VA (firstn c l ++ w ++ skipn d l)
                  | r, _ => r
                  end
                else snd p)
      (combine (seq s (List.length (map rowval rows))) (map rowval rows)) =
  map rowval (map (fun p => if Nat.leb a (fst p) && Nat.ltb (fst p) b
                            then firstn c (snd p) ++ nth (fst p - a) v [] ++ skipn d (snd p) else snd p)
                  (combine (seq s (List.length rows)) rows)).
Proof.
  intros Hv. induction rows as [|r t IH]; intros s; [reflexivity|].
  cbn [map List.length seq combine fst snd]. rewrite IH. f_equal.
  destruct (Nat.leb a s && Nat.ltb s b) eqn:Ec; [|reflexivity].
  apply andb_true_iff in Ec as [E1 E2]. apply Nat.leb_le in E1. apply Nat.ltb_lt in E2.
  rewrite (nth_indep (map rowval v) VNone (rowval [])) by (rewrite map_length; lia).
  rewrite (map_nth rowval v [] (s - a)). unfold rowval.
  rewrite !map_app, firstn_map, skipn_map. reflexivity.
Qed.

Lemma slice_bound_none d n : slice_bound d VNone n = Some d.
Proof. reflexivity. Qed.
Lemma slice_bound_nat d k n : (k <= n)%nat -> slice_bound d (VZ (Z.of_nat k)) n = Some k.
Proof.
  intros H. unfold slice_bound.
  assert (E1 : (0 <=? Z.of_nat k)%Z = true) by (apply Z.leb_le; lia).
  assert (E2 : (Z.of_nat k <=? Z.of_nat n)%Z = true) by (apply Z.leb_le; lia).
  rewrite E1, E2, Nat2Z.id. reflexivity.
Qed.

Lemma set_block_arr2 (old v : list (list Q)) (R C a b c d : nat) (ra rb ca cb : val) :
  List.length old = R -> Forall (fun r => List.length r = C) old -> (0 < R)%nat -> (0 < C)%nat ->
  slice_bound 0 ra R = Some a -> slice_bound R rb R = Some b -> slice_bound 0 ca C = Some c -> slice_bound C cb C = Some d ->
  (a < b)%nat -> (c < d)%nat -> List.length v = (b - a)%nat -> Forall (fun r => List.length r = (d - c)%nat) v ->
  set_block (arr2 old) ra rb ca cb (arr2 v) = Some (arr2 (blockQ old v a b c d)).
Proof.
  intros Lo Fo HR HC Ba Bb Bc Bd Hab Hcd Lv Fv. unfold set_block.
  destruct old as [|o old']; [cbn in Lo; lia|]. destruct v as [|w v']; [cbn in Lv; lia|].
  destruct o as [|x o']; [inversion Fo; subst; cbn in HC; lia|].
  rewrite (rect_arr2 _ C Fo), (rect_arr2 _ _ Fv), !shape_of_arr2.
  unfold arr2 at 1 2. cbn [map]. fold (arr2 ((x :: o') :: old')). fold (arr2 (w :: v')). rewrite has_Q_arr2. cbn [negb andb].
  inversion Fo as [|? ? Ho _]; subst. inversion Fv as [|? ? Hw _]; subst.
  cbn [List.length] in Ba, Bb, Lv. rewrite Ba, Bb, Bc, Bd.
  assert (E1 : Nat.leb a b = true) by (apply Nat.leb_le; lia).
  assert (E2 : Nat.leb c d = true) by (apply Nat.leb_le; lia).
  rewrite E1, E2. cbn [andb shape_eqb]. cbn [List.length]. rewrite Hw, Lv, !Nat.eqb_refl. cbn [andb].
  rewrite to_array_arr2. unfold arr2 at 1. apply f_equal. unfold arr2. apply f_equal.
  assert (Hv : (b - a <= List.length (w :: v'))%nat) by (cbn [List.length]; lia).
  exact (set_block_rows_arr2 (w :: v') a b c d Hv ((x :: o') :: old') 0%nat).
Qed.

Lemma map_combine_seq {A B} (F : nat -> A -> B) (dflt : A) (l : list A) : forall s,
  map (fun p => F (fst p) (snd p)) (combine (seq s (List.length l)) l) =
  map (fun i => F (s + i)%nat (nth i l dflt)) (seq 0 (List.length l)).
Proof.
  induction l as [|x t IH]; intros s; [reflexivity|].
  cbn [List.length seq combine map fst snd nth]. rewrite Nat.add_0_r. f_equal.
  rewrite IH, <- seq_shift, map_map. apply map_ext. intros i. rewrite Nat.add_succ_r. reflexivity.
Qed.

Lemma blockQ_seq (rows v : list (list Q)) (a b c d : nat) :
  blockQ rows v a b c d =
  map (fun i => if Nat.leb a i && Nat.ltb i b
                then firstn c (nth i rows []) ++ nth (i - a) v [] ++ skipn d (nth i rows []) else nth i rows [])
      (seq 0 (List.length rows)).
Proof.
  unfold blockQ.
  exact (map_combine_seq (fun i r => if Nat.leb a i && Nat.ltb i b then firstn c r ++ nth (i - a) v [] ++ skipn d r else r) [] rows 0).
Qed.

Lemma blockQ_length rows v a b c d : List.length (blockQ rows v a b c d) = List.length rows.
Proof. unfold blockQ. rewrite map_length, combine_length, seq_length. apply Nat.min_id. Qed.

Lemma seq_plus n k : seq n k = map (fun i => (n + i)%nat) (seq 0 k).
Proof.
  induction n as [|n IH]; [cbn; rewrite map_id; reflexivity|].
  rewrite <- seq_shift, IH, map_map. reflexivity.
Qed.

(** the four block stores of jacobian_2d_numpy, on any (2n) x (2m) matrix *)
Lemma blocks4 (old : list (list Q)) (n m : nat) (e nn x : nat -> list Q) :
  List.length old = (n + n)%nat -> Forall (fun r => List.length r = (m + m)%nat) old ->
  (forall i, List.length (e i) = m) -> (forall i, List.length (nn i) = m) -> (forall i, List.length (x i) = m) ->
  blockQ (blockQ (blockQ (blockQ old (map e (seq 0 n)) 0 n 0 m) (map nn (seq 0 n)) n (n + n) m (m + m))
                 (map x (seq 0 n)) 0 n m (m + m))
         (map x (seq 0 n)) n (n + n) 0 m =
  map (fun i => e i ++ x i) (seq 0 n) ++ map (fun i => x i ++ nn i) (seq 0 n).
Proof.
  intros Lo Fo He Hn Hx.
  assert (HL : forall i, (i < n + n)%nat -> List.length (nth i old []) = (m + m)%nat).
  { intros i Hi. rewrite Forall_forall in Fo. apply Fo. apply nth_In. lia. }
  set (r1 := blockQ old (map e (seq 0 n)) 0 n 0 m).
  set (r2 := blockQ r1 (map nn (seq 0 n)) n (n + n) m (m + m)).
  set (r3 := blockQ r2 (map x (seq 0 n)) 0 n m (m + m)).
  assert (L1 : List.length r1 = (n + n)%nat) by (unfold r1; rewrite blockQ_length; exact Lo).
  assert (L2 : List.length r2 = (n + n)%nat) by (unfold r2; rewrite blockQ_length; exact L1).
  assert (L3 : List.length r3 = (n + n)%nat) by (unfold r3; rewrite blockQ_length; exact L2).
  assert (N1 : forall i, (i < n + n)%nat -> nth i r1 [] =
            if Nat.ltb i n then e i ++ skipn m (nth i old []) else nth i old []).
  { intros i Hi. unfold r1. rewrite blockQ_seq, Lo, (nth_map_seq _ _ i []) by exact Hi.
    cbn [Nat.leb andb firstn app]. rewrite Nat.sub_0_r. destruct (Nat.ltb i n) eqn:E; [|reflexivity].
    apply Nat.ltb_lt in E. rewrite (nth_map_seq e n i []) by exact E. reflexivity. }
  assert (N2 : forall i, (i < n + n)%nat -> nth i r2 [] =
            if Nat.ltb i n then e i ++ skipn m (nth i old []) else firstn m (nth i old []) ++ nn (i - n)%nat).
  { intros i Hi. unfold r2. rewrite blockQ_seq, L1, (nth_map_seq _ _ i []) by exact Hi. rewrite (N1 i Hi).
    destruct (Nat.ltb i n) eqn:E.
    - apply Nat.ltb_lt in E. assert (E' : Nat.leb n i = false) by (apply Nat.leb_gt; exact E). rewrite E'. reflexivity.
    - apply Nat.ltb_ge in E. assert (E' : Nat.leb n i = true) by (apply Nat.leb_le; exact E).
      assert (E'' : Nat.ltb i (n + n) = true) by (apply Nat.ltb_lt; exact Hi). rewrite E', E''. cbn [andb].
      rewrite (nth_map_seq nn n (i - n) []) by lia.
      rewrite (skipn_all2 (nth i old [])) by (rewrite (HL i Hi); lia). rewrite app_nil_r. reflexivity. }
  assert (N3 : forall i, (i < n + n)%nat -> nth i r3 [] =
            if Nat.ltb i n then e i ++ x i else firstn m (nth i old []) ++ nn (i - n)%nat).
  { intros i Hi. unfold r3. rewrite blockQ_seq, L2, (nth_map_seq _ _ i []) by exact Hi. rewrite (N2 i Hi).
    cbn [Nat.leb andb]. rewrite Nat.sub_0_r. destruct (Nat.ltb i n) eqn:E; [|reflexivity].
    apply Nat.ltb_lt in E. rewrite (nth_map_seq x n i []) by exact E.
    rewrite firstn_app, (He i), Nat.sub_diag. cbn [firstn]. rewrite app_nil_r.
    rewrite <- (He i) at 1. rewrite firstn_all.
    rewrite skipn_all2 by (rewrite app_length, skipn_length, (He i), (HL i Hi); lia). rewrite app_nil_r. reflexivity. }
  rewrite blockQ_seq, L3, seq_app, map_app. cbn [plus]. f_equal.
  - apply map_ext_in. intros i Hi. apply in_seq in Hi. rewrite (N3 i) by lia.
    assert (E : Nat.ltb i n = true) by (apply Nat.ltb_lt; lia). assert (E' : Nat.leb n i = false) by (apply Nat.leb_gt; lia).
    rewrite E, E'. reflexivity.
  - rewrite (seq_plus n n), map_map. apply map_ext_in. intros i Hi. apply in_seq in Hi. rewrite (N3 (n + i)%nat) by lia.
    assert (E : Nat.ltb (n + i) n = false) by (apply Nat.ltb_ge; lia).
    assert (E' : Nat.leb n (n + i) = true) by (apply Nat.leb_le; lia).
    assert (E'' : Nat.ltb (n + i) (n + n) = true) by (apply Nat.ltb_lt; lia).
    rewrite E, E', E''. cbn [andb firstn app]. replace (n + i - n)%nat with i by lia.
    rewrite (nth_map_seq x n i []) by lia.
    rewrite skipn_app, firstn_length, (HL (n + i)%nat) by lia. rewrite Nat.min_l by lia. rewrite Nat.sub_diag. cbn [skipn].
    rewrite skipn_all2 by (rewrite firstn_length, (HL (n + i)%nat) by lia; lia). reflexivity.
Qed.

Lemma blockQ_rows_length (old v : list (list Q)) (C a b c d : nat) :
  Forall (fun r => List.length r = C) old -> Forall (fun r => List.length r = (d - c)%nat) v ->
  (c <= d)%nat -> (d <= C)%nat -> (b - a <= List.length v)%nat ->
  Forall (fun r => List.length r = C) (blockQ old v a b c d).
Proof.
  intros Fo Fv Hcd HdC Hv. rewrite blockQ_seq. apply Forall_forall. intros r Hr.
  apply in_map_iff in Hr as [i [<- Hi]]. apply in_seq in Hi.
  assert (Hl : List.length (nth i old []) = C).
  { rewrite Forall_forall in Fo. apply Fo. apply nth_In. lia. }
  destruct (Nat.leb a i && Nat.ltb i b) eqn:E; [|exact Hl].
  apply andb_true_iff in E as [E1 E2]. apply Nat.leb_le in E1. apply Nat.ltb_lt in E2.
  assert (Hw : List.length (nth (i - a) v []) = (d - c)%nat).
  { rewrite Forall_forall in Fv. apply Fv. apply nth_In. lia. }
  rewrite !app_length, firstn_length, skipn_length, Hw, Hl. lia.
Qed.

(** the two-component accumulation of predict_2d_numpy *)
Lemma axpy2_eq (acc : list Q) : forall g1 g2 f1 f2, List.length acc = List.length g1 -> List.length acc = List.length g2 ->
  map (fun p => (fst p + snd p)%Q)
      (combine acc (map (fun p => (fst p + snd p)%Q) (combine (map (fun x => (x * f1)%Q) g1) (map (fun x => (x * f2)%Q) g2)))) =
  axpy2 acc g1 g2 f1 f2.
Proof.
  induction acc as [|a t IH]; intros [|x g1] [|y g2] f1 f2 H1 H2; try discriminate; [reflexivity|].
  cbn [map combine fst snd axpy2]. rewrite IH by (cbn [List.length] in *; lia). reflexivity.
Qed.

Lemma axpy2_len (acc : list Q) : forall g1 g2 f1 f2, List.length acc = List.length g1 -> List.length acc = List.length g2 ->
  List.length (axpy2 acc g1 g2 f1 f2) = List.length acc.
Proof.
  induction acc as [|a t IH]; intros [|x g1] [|y g2] f1 f2 H1 H2; try discriminate; [reflexivity|].
  cbn [axpy2 List.length]. rewrite IH by (cbn [List.length] in *; lia). reflexivity.
Qed.

Lemma skipn_nth_cons (f : list Q) : forall a, (a < List.length f)%nat -> skipn a f = nth a f 0 :: skipn (S a) f.
Proof.
  induction f as [|x t IH]; intros a H; [cbn in H; lia|].
  destruct a as [|a]; [reflexivity|]. cbn [skipn nth]. rewrite IH by (cbn [List.length] in H; lia). reflexivity.
Qed.

Lemma fold_predict2_loop (KE KN KX : nat -> nat -> Q) (n : nat) (f1 f2 : list Q) : forall (k a : nat) (ve vn : list Q),
  (a + k <= List.length f1)%nat -> (a + k <= List.length f2)%nat ->
  fold_left (fun acc j => (axpy2 (fst acc) (col_of KE n j) (col_of KX n j) (nth j f1 0) (nth j f2 0),
                           axpy2 (snd acc) (col_of KX n j) (col_of KN n j) (nth j f1 0) (nth j f2 0)))
            (seq a k) (ve, vn) =
  predict2_loop (map (col_of KE n) (seq a k)) (map (col_of KN n) (seq a k)) (map (col_of KX n) (seq a k))
                (firstn k (skipn a f1)) (firstn k (skipn a f2)) ve vn.
Proof.
  induction k as [|k IH]; intros a ve vn H1 H2; [reflexivity|].
  cbn [seq map fold_left fst snd].
  rewrite (skipn_nth_cons f1 a), (skipn_nth_cons f2 a) by lia. cbn [firstn predict2_loop]. apply IH; lia.
Qed.

Lemma half_double (m : nat) : (Z.of_nat (m + m) / 2 = Z.of_nat m)%Z.
Proof. rewrite Nat2Z.inj_add. replace (Z.of_nat m + Z.of_nat m)%Z with (Z.of_nat m * 2)%Z by lia. apply Z.div_mul. lia. Qed.

Lemma idx_arr_plus (a : list Q) (j m : nat) : (j + m < List.length a)%nat ->
  norm_index (List.length (map VQ a)) (Z.of_nat j + Z.of_nat m) = Some (j + m)%nat /\
  nth_val (map VQ a) (j + m) = Some (VQ (nth (j + m) a 0)).
Proof. intros H. rewrite <- Nat2Z.inj_add. apply idx_arr. exact H. Qed.
