(** Proofs about the longitude_continuity model (C17). *)
From Coq Require Import ZArith List Bool Lia ZifyBool.
From Verde Require Import Lib.Verdict Model.Longitude.
Import ListNotations.
Open Scope Z_scope.

(** [x mod c] for a variable modulus is outside linear arithmetic; all the
    arguments that occur are within two circles of zero, where [mod] is one
    of four translations. *)
Lemma mod_cases c x : 0 < c -> - 2 * c <= x < 2 * c ->
  (x < - c /\ x mod c = x + 2 * c) \/
  (- c <= x < 0 /\ x mod c = x + c) \/
  (0 <= x < c /\ x mod c = x) \/
  (c <= x /\ x mod c = x - c).
Proof.
  intros Hc Hx.
  destruct (Z_lt_ge_dec x (- c)) as [H1|H1].
  { left. split; [lia|]. symmetry. apply (Z.mod_unique_pos x c (-2) (x + 2 * c)); lia. }
  destruct (Z_lt_ge_dec x 0) as [H2|H2].
  { right; left. split; [lia|]. symmetry. apply (Z.mod_unique_pos x c (-1) (x + c)); lia. }
  destruct (Z_lt_ge_dec x c) as [H3|H3].
  { right; right; left. split; [lia|]. apply Z.mod_small; lia. }
  right; right; right. split; [lia|]. symmetry. apply (Z.mod_unique_pos x c 1 (x - c)); lia.
Qed.

(** replace one [x mod c] by its translation, splitting into the feasible cases *)
Ltac modc c x :=
  let H := fresh "Hm" in
  let E := fresh "Em" in
  destruct (mod_cases c x ltac:(lia) ltac:(lia)) as [[H E]|[[H E]|[[H E]|[H E]]]];
  rewrite ?E in *; try lia.

Section Proofs.
Variable h : Z.
Hypothesis Hh : 0 < h.
Let c := 2 * h.

Lemma representable_k w e : in_range h w -> representable h w e ->
  exists k, (k = -1 \/ k = 0 \/ k = 1) /\
    let a := w + k * (2 * h) in
    (0 <= a /\ a + east_angle h w e <= 2 * h) \/ (- h <= a /\ a + east_angle h w e <= h).
Proof.
  intros [Hw1 Hw2] [k Hk]. exists k. split; [|exact Hk].
  cbv zeta in Hk. unfold east_angle in Hk.
  assert (Hpos: 0 <= (e - w) mod (2 * h)) by (apply Z.mod_pos_bound; lia).
  assert (Hk1: -2 < k) by nia.
  assert (Hk2: k < 2) by nia.
  lia.
Qed.

(** ** The region *)

Theorem lc_valid w e :
  in_range h w -> in_range h e -> Z.abs (e - w) <= 2 * h ->
  representable h w e \/ full_globe h w e ->
  let '(_, W, E) := lc_region h w e in W <= E.
Proof.
  intros Hw He Hd Hr. pose proof Hw as Hw'. pose proof He as He'.
  unfold in_range in Hw', He'.
  destruct Hr as [Hr|Hg].
  2:{ unfold full_globe in Hg. unfold lc_region.
      replace (Z.abs (e - w) =? 2 * h) with true by lia.
      destruct (0 >? 2 * h) eqn:E0; lia. }
  apply representable_k in Hr; [|exact Hw].
  destruct Hr as [k [Hk Hr]]. cbv zeta in Hr. unfold east_angle in Hr.
  unfold lc_region.
  destruct (Z.abs (e - w) =? 2 * h) eqn:Eg.
  { destruct (0 >? 2 * h) eqn:E0; lia. }
  modc (2 * h) (e - w); modc (2 * h) w; modc (2 * h) e;
  repeat match goal with
  | |- context [if ?b then _ else _] => destruct b eqn:?; try lia
  | |- context [(?x + h) mod (2 * h)] => modc (2 * h) (x + h)
  end.
Qed.

Theorem lc_congruent w e :
  in_range h w -> in_range h e -> Z.abs (e - w) <= 2 * h -> ~ full_globe h w e ->
  let '(_, W, E) := lc_region h w e in
  (W - w) mod (2 * h) = 0 /\ (E - e) mod (2 * h) = 0.
Proof.
  intros Hw He Hd Hg. unfold in_range, full_globe in *.
  unfold lc_region.
  destruct (Z.abs (e - w) =? 2 * h) eqn:Eg; [lia|].
  assert (Z0: forall x, (x = - (2 * h) \/ x = 0 \/ x = 2 * h) -> x mod (2 * h) = 0).
  { intros x [ -> | [ -> | -> ] ].
    - replace (- (2 * h)) with ((-1) * (2 * h)) by ring. apply Z.mod_mul; lia.
    - apply Z.mod_0_l; lia.
    - apply Z.mod_same; lia. }
  modc (2 * h) w; modc (2 * h) e;
  repeat match goal with
  | |- context [if ?b then _ else _] => destruct b eqn:?; try lia
  | |- context [(?x + h) mod (2 * h)] => modc (2 * h) (x + h)
  end; split; apply Z0; lia.
Qed.

Theorem lc_full_globe w e :
  full_globe h w e -> lc_region h w e = (true, 0, 2 * h).
Proof.
  unfold full_globe, lc_region. intros Hg.
  replace (Z.abs (e - w) =? 2 * h) with true by lia.
  destruct (0 >? 2 * h) eqn:E0; [lia|reflexivity].
Qed.

Theorem lc_width w e :
  in_range h w -> in_range h e -> Z.abs (e - w) <= 2 * h -> ~ full_globe h w e ->
  representable h w e ->
  let '(_, W, E) := lc_region h w e in E - W = east_angle h w e.
Proof.
  intros Hw He Hd Hg Hr. pose proof Hw as Hw'. pose proof He as He'.
  unfold in_range, full_globe in *.
  apply representable_k in Hr; [|exact Hw].
  destruct Hr as [k [Hk Hr]]. cbv zeta in Hr. unfold east_angle in *.
  unfold lc_region.
  destruct (Z.abs (e - w) =? 2 * h) eqn:Eg; [lia|].
  modc (2 * h) (e - w); modc (2 * h) w; modc (2 * h) e;
  repeat match goal with
  | |- context [if ?b then _ else _] => destruct b eqn:?; try lia
  | |- context [(?x + h) mod (2 * h)] => modc (2 * h) (x + h)
  end.
Qed.

(** the returned bounds lie in the convention the flag names *)
Theorem lc_region_convention w e :
  in_range h w -> in_range h e -> Z.abs (e - w) <= 2 * h ->
  representable h w e \/ full_globe h w e ->
  let '(i360, W, E) := lc_region h w e in
  if i360 then 0 <= W /\ E <= 2 * h else - h <= W /\ E <= h.
Proof.
  intros Hw He Hd Hr. pose proof Hw as Hw'. pose proof He as He'.
  unfold in_range in Hw', He'.
  destruct Hr as [Hr|Hg].
  2:{ rewrite lc_full_globe by exact Hg. lia. }
  apply representable_k in Hr; [|exact Hw].
  destruct Hr as [k [Hk Hr]]. cbv zeta in Hr. unfold east_angle in Hr.
  unfold lc_region.
  destruct (Z.abs (e - w) =? 2 * h) eqn:Eg.
  { destruct (0 >? 2 * h) eqn:E0; lia. }
  modc (2 * h) (e - w); modc (2 * h) w; modc (2 * h) e;
  repeat match goal with
  | |- context [if ?b then _ else _] => destruct b eqn:?; try lia
  | |- context [(?x + h) mod (2 * h)] => modc (2 * h) (x + h)
  end.
Qed.

(** ** The longitudes *)

Theorem lc_lon_congruent i360 W E lon :
  in_range h lon -> (lc_lon h i360 W E lon - lon) mod (2 * h) = 0.
Proof.
  intros Hl. unfold in_range in Hl. unfold lc_lon.
  assert (Z0: forall x, (x = - (2 * h) \/ x = 0 \/ x = 2 * h) -> x mod (2 * h) = 0).
  { intros x [ -> | [ -> | -> ] ].
    - replace (- (2 * h)) with ((-1) * (2 * h)) by ring. apply Z.mod_mul; lia.
    - apply Z.mod_0_l; lia.
    - apply Z.mod_same; lia. }
  destruct i360.
  - modc (2 * h) lon; destruct (_ && _) eqn:?; apply Z0; lia.
  - modc (2 * h) (lon + h); destruct (_ && _) eqn:?; apply Z0; lia.
Qed.

Theorem lc_lon_convention i360 W E lon :
  in_range h lon ->
  let l := lc_lon h i360 W E lon in
  if i360 then 0 <= l <= 2 * h else - h <= l <= h.
Proof.
  intros Hl. unfold in_range in Hl. unfold lc_lon. cbv zeta.
  destruct i360.
  - modc (2 * h) lon; destruct (_ && _) eqn:?; lia.
  - modc (2 * h) (lon + h); destruct (_ && _) eqn:?; lia.
Qed.

(** a point is inside the returned region exactly when it is angularly within
    the original arc: the eastward angle from the input west bound to the
    point does not exceed the arc's width *)
Theorem lc_membership w e lon :
  in_range h w -> in_range h e -> Z.abs (e - w) <= 2 * h ->
  representable h w e \/ full_globe h w e ->
  in_range h lon ->
  let '(i360, W, E) := lc_region h w e in
  let l := lc_lon h i360 W E lon in
  (W <= l <= E) <-> (full_globe h w e \/ east_angle h w lon <= east_angle h w e).
Proof.
  intros Hw He Hd Hr Hl. pose proof Hw as Hw'. pose proof He as He'.
  unfold in_range in Hw', He', Hl.
  destruct Hr as [Hr|Hg].
  2:{ rewrite lc_full_globe by exact Hg. cbv zeta. unfold lc_lon.
      replace (2 * h =? 2 * h) with true by lia. replace (0 <? 0) with false by lia.
      cbn [andb]. split; [intros _; left; exact Hg|intros _].
      pose proof (Z.mod_pos_bound lon (2 * h) ltac:(lia)). lia. }
  apply representable_k in Hr; [|exact Hw].
  destruct Hr as [k [Hk Hr]]. cbv zeta in Hr. unfold east_angle in *.
  unfold lc_region.
  destruct (Z.abs (e - w) =? 2 * h) eqn:Eg.
  { destruct (0 >? 2 * h) eqn:E0; [lia|]. cbv zeta. unfold lc_lon.
    split; [intros _; left; unfold full_globe; lia|intros _].
    pose proof (Z.mod_pos_bound lon (2 * h) ltac:(lia)).
    destruct ((2 * h =? 2 * h) && (0 <? 0) && (lon mod (2 * h) =? 0)) eqn:E1; lia. }
  assert (Hng: ~ full_globe h w e) by (unfold full_globe; lia).
  modc (2 * h) (e - w); modc (2 * h) w; modc (2 * h) e;
  repeat match goal with
  | |- context [if ?b then _ else _] => destruct b eqn:?; try lia
  | |- context [(?x + h) mod (2 * h)] => modc (2 * h) (x + h)
  end;
  cbv zeta; unfold lc_lon;
  modc (2 * h) (lon - w);
  repeat match goal with
  | |- context [if ?b then _ else _] => destruct b eqn:?; try lia
  | |- context [(?x + h) mod (2 * h)] => modc (2 * h) (x + h)
  | |- context [lon mod (2 * h)] => modc (2 * h) lon
  end; try tauto; try (split; [intros; right; lia | intros [?|?]; [tauto|lia]]).
  all: modc (2 * h) (lon + h); modc (2 * h) lon; try (split; [intros; right; lia | intros [?|?]; [tauto|lia]]).
Qed.

(** ** Rejection *)

Theorem check_geo_region_iff q w e s n :
  check_geo_region h q w e s n = true <->
  (in_range h w /\ in_range h e /\ - q <= s <= q /\ - q <= n <= q /\ Z.abs (e - w) <= 2 * h).
Proof. unfold check_geo_region, in_range. lia. Qed.

Theorem check_geo_coords_iff q lons lats :
  check_geo_coords h q lons lats = true <->
  (Forall (in_range h) lons /\ Forall (fun l => - q <= l <= q) lats).
Proof.
  unfold check_geo_coords. rewrite andb_true_iff, !forallb_forall, !Forall_forall.
  unfold in_range. split; intros [H1 H2]; split; intros x Hx;
    try (specialize (H1 x Hx)); try (specialize (H2 x Hx)); lia.
Qed.

Theorem lc_rejects q w e s n coords :
  check_geo_region h q w e s n = false ->
  longitude_continuity h q w e s n coords = None.
Proof. intros H. unfold longitude_continuity. rewrite H. reflexivity. Qed.

Theorem lc_rejects_coords q w e s n lons lats :
  check_geo_coords h q lons lats = false ->
  longitude_continuity h q w e s n (Some (lons, lats)) = None.
Proof.
  intros H. unfold longitude_continuity. destruct (check_geo_region h q w e s n); [|reflexivity].
  destruct (lc_region h w e) as [[i W] E]. rewrite H. reflexivity.
Qed.

Theorem lc_lat_untouched q w e s n coords r :
  longitude_continuity h q w e s n coords = Some r ->
  snd (snd r) = n /\ snd (fst (snd r)) = s /\
  match coords, fst r with
  | Some (_, lats), Some (_, lats') => lats' = lats
  | None, None => True
  | _, _ => False
  end.
Proof.
  unfold longitude_continuity. destruct (check_geo_region h q w e s n); [|discriminate].
  destruct (lc_region h w e) as [[i W] E].
  destruct coords as [[lons lats]|].
  - destruct (check_geo_coords h q lons lats); [|discriminate].
    intros H; injection H as <-. cbn. auto.
  - intros H; injection H as <-. cbn. auto.
Qed.

End Proofs.

(** ** The decidable statement evaluated by the generated case files on the
    implementation's output is a consequence of the theorems above: the
    model's own output satisfies it for every input.  Hence whenever a case
    reports [agree = true] (implementation output = model output), [holds] is
    true as well; a case can only be reported as a violation when the
    implementation's output differs from the model's. *)
Section Reflect.
Variable h : Z.
Hypothesis Hh : 0 < h.

Lemma representable_b_sound w e : representable_b h w e = true -> representable h w e.
Proof.
  unfold representable_b, representable. intros H. apply existsb_exists in H as [k [_ Hk]].
  exists k. cbv zeta in *. lia.
Qed.

Lemma list_eqb_refl l : list_eqb Z.eqb l l = true.
Proof. induction l as [|x t IH]; cbn; [reflexivity|]. rewrite Z.eqb_refl, IH. reflexivity. Qed.

Lemma lon_ok_model w e lon :
  in_range h w -> in_range h e -> Z.abs (e - w) <= 2 * h ->
  representable h w e \/ full_globe h w e -> in_range h lon ->
  let '(i360, W, E) := lc_region h w e in
  lon_ok h w e W E lon (lc_lon h i360 W E lon) = true.
Proof.
  intros Hw He Hd Hr Hl.
  pose proof (lc_membership h Hh w e lon Hw He Hd Hr Hl) as M.
  destruct (lc_region h w e) as [[i W] E]. cbv zeta in M.
  pose proof (lc_lon_congruent h Hh i W E lon Hl) as C.
  unfold lon_ok. apply andb_true_iff. split; [lia|].
  unfold full_globe in M. apply eqb_true_iff.
  destruct ((W <=? lc_lon h i W E lon) && (lc_lon h i W E lon <=? E)) eqn:E1;
  destruct ((Z.abs (e - w) =? 2 * h) || (east_angle h w lon <=? east_angle h w e)) eqn:E2;
  try reflexivity; exfalso.
  - assert (P: W <= lc_lon h i W E lon <= E) by lia. apply M in P. lia.
  - assert (P: Z.abs (e - w) = 2 * h \/ east_angle h w lon <= east_angle h w e) by lia.
    apply M in P. lia.
Qed.

Lemma lons_convention_model i W E lons :
  Forall (in_range h) lons -> lons_convention h (map (lc_lon h i W E) lons) = true.
Proof.
  intros Hl. unfold lons_convention. apply orb_true_iff.
  rewrite Forall_forall in Hl.
  destruct i; [left|right]; apply forallb_forall; intros l Hin;
    apply in_map_iff in Hin as [x [<- Hx]]; specialize (Hl x Hx).
  - pose proof (lc_lon_convention h Hh true W E x Hl) as Cv. cbv zeta iota in Cv. lia.
  - pose proof (lc_lon_convention h Hh false W E x Hl) as Cv. cbv zeta iota in Cv. lia.
Qed.

Theorem lc_model_holds q w e s n coords :
  lc_holds h q w e s n coords (longitude_continuity h q w e s n coords) = true.
Proof.
  unfold lc_holds, longitude_continuity.
  destruct (check_geo_region h q w e s n) eqn:Hc; [|reflexivity].
  apply check_geo_region_iff in Hc as [Hw [He [Hs [Hn Hd]]]].
  assert (Region:
    let '(_, W, E) := lc_region h w e in
    (if Z.abs (e - w) =? 2 * h then (W =? 0) && (E =? 2 * h)
     else if representable_b h w e then
       (W <=? E) && ((W - w) mod (2 * h) =? 0) && ((E - e) mod (2 * h) =? 0) && (E - W =? east_angle h w e)
     else true) = true).
  { destruct (Z.abs (e - w) =? 2 * h) eqn:Eg.
    - rewrite (lc_full_globe h Hh w e) by (unfold full_globe; lia). lia.
    - destruct (representable_b h w e) eqn:Er.
      + apply representable_b_sound in Er.
        assert (Hng: ~ full_globe h w e) by (unfold full_globe; lia).
        pose proof (lc_valid h Hh w e Hw He Hd (or_introl Er)) as V.
        pose proof (lc_congruent h Hh w e Hw He Hd Hng) as Cg.
        pose proof (lc_width h Hh w e Hw He Hd Hng Er) as Wd.
        destruct (lc_region h w e) as [[i W] E]. lia.
      + destruct (lc_region h w e) as [[i W] E]. reflexivity. }
  destruct (lc_region h w e) as [[i W] E] eqn:ER.
  destruct coords as [[lons lats]|].
  - destruct (check_geo_coords h q lons lats) eqn:Hcc; [|reflexivity].
    rewrite !Z.eqb_refl. cbn [andb]. rewrite Region. cbn [andb].
    rewrite list_eqb_refl, map_length, Nat.eqb_refl. cbn [andb].
    apply check_geo_coords_iff in Hcc as [Hlons _].
    destruct ((Z.abs (e - w) =? 2 * h) || representable_b h w e) eqn:Erep; [|reflexivity].
    assert (Hr: representable h w e \/ full_globe h w e).
    { apply orb_true_iff in Erep as [E1|E1]; [right; unfold full_globe; lia|left; apply representable_b_sound; exact E1]. }
    apply andb_true_iff. split; [|apply lons_convention_model; exact Hlons].
    apply forallb_forall. intros [lon l] Hin. cbn [fst snd].
    assert (Hl: In lon lons /\ l = lc_lon h i W E lon).
    { clear -Hin. induction lons as [|x t IH]; [destruct Hin|].
      cbn in Hin. destruct Hin as [Hin|Hin]; [injection Hin as <- <-; split; [left; reflexivity|reflexivity]|].
      destruct (IH Hin) as [H1 H2]. split; [right; exact H1|exact H2]. }
    destruct Hl as [Hin2 ->]. rewrite Forall_forall in Hlons.
    pose proof (lon_ok_model w e lon Hw He Hd Hr (Hlons lon Hin2)) as L. rewrite ER in L. exact L.
  - rewrite !Z.eqb_refl. cbn [andb]. rewrite Region. reflexivity.
Qed.

End Reflect.
