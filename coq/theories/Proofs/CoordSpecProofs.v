(** The closed-form specification [line_spec] that the generated case files
    evaluate on the implementation's output is satisfied by the model
    [line_coordinates] for all inputs: same error behaviour, same length, nodes
    equal (as rationals). *)
From Coq Require Import QArith Qround Qabs ZArith List Bool Lia Lqa Morphisms.
From Verde Require Import Lib.Dyadic Lib.QExtra Model.Coordinates Model.CoordCases
  Proofs.CoordinatesProofs.
Import ListNotations.
Open Scope Q_scope.

Definition same_nodes (a b : list Q) : Prop :=
  length a = length b /\ forall i, (i < length a)%nat -> nth i a 0 == nth i b 0.

Definition same_result (a b : option (list Q)) : Prop :=
  match a, b with
  | None, None => True
  | Some v, Some s => same_nodes v s
  | _, _ => False
  end.

Lemma nodes_from_length start step half n : length (nodes_from start step half n) = n.
Proof. unfold nodes_from. rewrite map_length, seq_length. reflexivity. Qed.

Lemma nodes_from_nth start step half n i : (i < n)%nat ->
  nth i (nodes_from start step half n) 0 =
  start + (inject_Z (Z.of_nat i) + (if half then 1#2 else 0)) * step.
Proof.
  intros Hi. unfold nodes_from.
  rewrite (nth_map_const _ _ _ _ 0%nat) by (rewrite seq_length; exact Hi).
  rewrite seq_nth by exact Hi. reflexivity.
Qed.

Lemma pixel_shift_linspace a b n : (2 <= n)%nat ->
  exists p, pixel_shift (linspace a b n) = Some p /\
    same_nodes p (nodes_from a ((b - a) / inject_Z (Z.of_nat (n - 1))) true (n - 1)).
Proof.
  intros Hn.
  destruct (pixel_shift (linspace a b n)) as [p|] eqn:Ep.
  2:{ exfalso. destruct n as [|[|m]]; try lia.
      unfold linspace in Ep. cbn [seq map] in Ep. unfold pixel_shift in Ep. discriminate. }
  exists p. split; [reflexivity|].
  destruct (pixel_shift_spec _ _ Ep) as [Hl Hi]. rewrite linspace_length in *.
  split; [rewrite nodes_from_length; exact Hl|].
  intros i Hlt. rewrite Hl in Hlt. rewrite Hi by exact Hlt.
  rewrite nodes_from_nth by exact Hlt.
  rewrite !linspace_nth by lia.
  set (st := (b - a) / inject_Z (Z.of_nat (n - 1))). clearbody st.
  change (inject_Z (Z.of_nat 1)) with 1. change (inject_Z (Z.of_nat 0)) with 0. field.
Qed.

Theorem line_spec_correct start stop size spacing adjust pixel :
  start <= stop ->
  (forall sp, spacing = Some sp -> 0 < sp) ->
  (forall n, size = Some n -> (1 <= n)%Z) ->
  same_result (line_coordinates start stop size spacing adjust pixel)
              (line_spec start stop size spacing adjust pixel).
Proof.
  intros Hle Hsp Hsz. unfold line_coordinates, line_spec.
  destruct size as [n|], spacing as [sp|]; cbn [same_result]; try exact I.
  - (* a size *)
    specialize (Hsz n eq_refl). destruct pixel.
    + destruct (pixel_shift_linspace start stop (Z.to_nat (n + 1)) ltac:(lia)) as [p [-> Hp]].
      cbn [same_result].
      replace (Z.of_nat (Z.to_nat (n + 1) - 1)) with n in Hp by lia.
      replace (Z.to_nat (n + 1) - 1)%nat with (Z.to_nat n) in Hp by lia. exact Hp.
    + destruct (n =? 1)%Z eqn:E1.
      * assert (n = 1%Z) by lia. subst n. change (Z.to_nat 1) with 1%nat.
        cbn [linspace same_result]. split; [reflexivity|]. intros i Hi.
        assert (i = 0)%nat by (cbn [length] in Hi; lia). subst i. reflexivity.
      * cbn [same_result]. split; [rewrite linspace_length, nodes_from_length; reflexivity|].
        rewrite linspace_length. intros i Hi.
        rewrite linspace_nth by lia. rewrite nodes_from_nth by exact Hi.
        replace (Z.of_nat (Z.to_nat n - 1)) with (n - 1)%Z by lia. ring.
  - (* a spacing *)
    specialize (Hsp sp eq_refl).
    destruct (spacing_to_size start stop sp adjust) as [[n stop']|] eqn:Es.
    2:{ unfold spacing_to_size in Es.
        destruct ((adjust =? 0)%Z || (adjust =? 1)%Z); [discriminate|]. exact I. }
    destruct (sts_spec _ _ _ _ _ _ Hle Hsp Es) as [Hn [H0 H1]].
    assert (Ha: ((adjust =? 0)%Z || (adjust =? 1)%Z) = true).
    { unfold spacing_to_size in Es. destruct ((adjust =? 0)%Z || (adjust =? 1)%Z); [reflexivity|discriminate]. }
    rewrite Ha. cbn [negb]. fold (intervals start stop sp) in Hn.
    set (k := intervals start stop sp) in *.
    assert (Hk: (1 <= k)%Z) by (unfold k, intervals; lia).
    assert (Pk: 0 < inject_Z k). { change 0 with (inject_Z 0). rewrite <- Zlt_Qlt. lia. }
    assert (En: n = (k + 1)%Z) by lia. subst n.
    assert (Estep: (stop' - start) / inject_Z k ==
                   (if (adjust =? 0)%Z then (stop - start) / inject_Z k else sp)).
    { destruct (adjust =? 0)%Z eqn:E0.
      - rewrite (H0 ltac:(lia)). reflexivity.
      - rewrite (H1 ltac:(lia)). replace (k + 1 - 1)%Z with k by lia.
        set (kk := inject_Z k) in *. clearbody kk. field. lra. }
    destruct pixel.
    + destruct (pixel_shift_linspace start stop' (Z.to_nat (k + 1)) ltac:(lia)) as [p [-> [Hl Hp]]].
      cbn [same_result].
      replace (Z.of_nat (Z.to_nat (k + 1) - 1)) with k in * by lia.
      replace (Z.to_nat (k + 1) - 1)%nat with (Z.to_nat k) in * by lia.
      rewrite nodes_from_length in Hl.
      split; [rewrite nodes_from_length; exact Hl|].
      intros i Hi. rewrite Hp by exact Hi. rewrite Hl in Hi.
      rewrite !nodes_from_nth by exact Hi. rewrite Estep. reflexivity.
    + cbn [same_result]. split; [rewrite linspace_length, nodes_from_length; reflexivity|].
      rewrite linspace_length. intros i Hi. rewrite linspace_nth by lia.
      rewrite nodes_from_nth by exact Hi.
      replace (Z.of_nat (Z.to_nat (k + 1) - 1)) with k by lia.
      rewrite Estep. ring.
Qed.
