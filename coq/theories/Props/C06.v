(** C06  Chain, Vector and filter compose estimators without leaking or
    losing data.  Statements only; proofs in Proofs/ChainProofs.v.
    A gridder step is any function from the arguments it is fitted on to its
    predictor; a reduction step any function on (coordinates, data, weights). *)
From Coq Require Import QArith List Bool.
From Verde Require Import Lib.QExtra Model.Chain Proofs.ChainProofs.
Import ListNotations.
Open Scope Q_scope.

(** filter returns the coordinates and weights it was given and data minus
    prediction, in the data's shape; prediction + residual gives the data back *)
Theorem C06_filter_contract : forall (C : Type) (fit : args C -> predictor C) (a : args C),
  a_coords (base_filter fit a) = a_coords a /\
  a_weights (base_filter fit a) = a_weights a /\
  a_data (base_filter fit a) = vsub (a_data a) (fit a (a_coords a)) /\
  (same_shape (a_data a) (fit a (a_coords a)) ->
   same_shape (a_data a) (a_data (base_filter fit a)) /\
   ceq (vadd (fit a (a_coords a)) (a_data (base_filter fit a))) (a_data a)).
Proof. exact filter_contract. Qed.
Print Assumptions C06_filter_contract.

(** Chain.fit: step k is fitted on exactly what step k-1's filter returned *)
Theorem C06_chain_threads : forall (C : Type) (steps : list (step C)) a,
  (forall s t, steps = s :: t -> nth_error (chain_inputs steps a) 0 = Some a) /\
  (forall k s ak, nth_error steps k = Some s -> nth_error (chain_inputs steps a) k = Some ak ->
     (forall a', nth_error (chain_inputs steps a) (S k) = Some a' -> a' = sfilter s ak) /\
     (S k = length steps -> chain_final steps a = sfilter s ak)).
Proof. exact chain_threads. Qed.
Print Assumptions C06_chain_threads.

Theorem C06_chain_inputs_length : forall (C : Type) (steps : list (step C)) a,
  length (chain_inputs steps a) = length steps.
Proof. exact chain_inputs_length. Qed.
Print Assumptions C06_chain_inputs_length.

(** Chain.predict: the sum of the predictions of the steps that can predict,
    each fitted on its own threaded input *)
Theorem C06_chain_predict_sum : forall (C : Type) (steps : list (step C)) a q,
  chain_predict steps a q = fold_left acc_add (pred_list C steps a q) None.
Proof. exact chain_predict_sum. Qed.
Print Assumptions C06_chain_predict_sum.

Theorem C06_pred_list_inputs : forall (C : Type) (steps : list (step C)) a q,
  pred_list C steps a q =
  flat_map (fun p => match fst p with Gridder fit => [fit (snd p) q] | Reduction _ => [] end)
           (combine steps (chain_inputs steps a)).
Proof. exact pred_list_inputs. Qed.
Print Assumptions C06_pred_list_inputs.

(** leading reductions only change the arguments the rest of the chain sees *)
Theorem C06_leading_reductions : forall (C : Type) (rs : list (args C -> args C)) (rest : list (step C)) a q,
  let a' := fold_left (fun x f => f x) rs a in
  chain_predict (map Reduction rs ++ rest) a q = chain_predict rest a' q /\
  chain_final (map Reduction rs ++ rest) a = chain_final rest a'.
Proof. exact chain_leading_reductions. Qed.
Print Assumptions C06_leading_reductions.

(** the chain prediction at the data plus the last step's residual equals the data *)
Theorem C06_chain_telescopes : forall (C : Type) (fits : list (args C -> predictor C)),
  (forall fit a, In fit fits -> same_shape (a_data a) (fit a (a_coords a))) ->
  forall a, fits <> [] ->
  match chain_predict (map Gridder fits) a (a_coords a) with
  | Some P => ceq (vadd P (a_data (chain_final (map Gridder fits) a))) (a_data a)
  | None => False
  end.
Proof. exact chain_telescopes. Qed.
Print Assumptions C06_chain_telescopes.

(** Vector: component i is fitted to data[i] with weights[i] only; the prediction
    tuple is that of the separately fitted components *)
Theorem C06_vector_components : forall (C : Type) (components : list (args C -> predictor C)) a q i dflt,
  (i < length components)%nat ->
  nth i (vector_predict components a q) [] =
  hd [] (nth i components dflt {| a_coords := a_coords a;
                                 a_data := [nth i (a_data a) []];
                                 a_weights := nth_weight (a_weights a) i |} q).
Proof. exact vector_components. Qed.
Print Assumptions C06_vector_components.

Theorem C06_vector_length : forall (C : Type) (components : list (args C -> predictor C)) a q,
  length (vector_predict components a q) = length components.
Proof. exact vector_length. Qed.
Print Assumptions C06_vector_length.

Theorem C06_vector_no_leak : forall (C : Type) (components : list (args C -> predictor C)) c d d' w w' q i,
  (i < length components)%nat ->
  nth i d [] = nth i d' [] -> nth_weight w i = nth_weight w' i ->
  nth i (vector_predict components {| a_coords := c; a_data := d; a_weights := w |} q) [] =
  nth i (vector_predict components {| a_coords := c; a_data := d'; a_weights := w' |} q) [].
Proof. exact vector_no_leak. Qed.
Print Assumptions C06_vector_no_leak.

(** non-vacuity: a two-step chain of gridders that each explain half of what
    they are given satisfies the shape premise and telescopes *)
Example C06_nv :
  let half : args nat -> predictor nat := fun a _ => map (map (fun x => x / 2)) (a_data a) in
  let a := {| a_coords := 0%nat; a_data := [[2; 4]]; a_weights := None |} in
  same_shape (a_data a) (half a 0%nat) /\
  match chain_predict [Gridder half; Gridder half] a 0%nat with
  | Some P => ceq (vadd P (a_data (chain_final [Gridder half; Gridder half] a))) (a_data a)
  | None => False
  end.
Proof.
  split; [repeat constructor|].
  cbn. repeat (constructor; try (vm_compute; reflexivity)).
Qed.
