(** C04  Gridding results do not depend on array layout, point order or dtype;
    gridders that are linear in the data are linear.  Statements only; proofs
    in Proofs/InvarianceProofs.v and Proofs/InvarianceKnnProofs.v.

    Vocabulary (Model/Invariance.v):
      ravel2 a            C-order element sequence of a stored 2-D array (logical index, last axis fastest)
      as_fortran a        the same logical array in column-major storage
      broadcast_shape     numpy's shape broadcasting on lists of naturals
      permute d s l       l[s] (fancy indexing by the index list s);  is_perm n s: s lists 0..n-1 exactly once
      rA B, rD B, rW B    Jacobian rows, data, weights of a least-squares system given as a list B of rows
      colperm s A         the matrix A with its columns reordered by s;  qpermute = permute on rationals
      lin a x b y         the vector a x + b y
    and Model/LeastSquares.v (normal_eq, scale2, ...), Model/Neighbors.v (knn_predict, ...). *)
From Coq Require Import QArith Qabs ZArith List Bool Arith Lia Permutation.
From Verde Require Import Lib.Dyadic Lib.QExtra Lib.LinAlgQ Lib.LinAlgD Lib.ISort Model.LeastSquares Model.Neighbors Model.Invariance
  Model.InvarianceCases Proofs.LeastSquaresProofs Proofs.NeighborsProofs Proofs.InvarianceProofs Proofs.InvarianceKnnProofs
  Proofs.InvarianceCasesProofs.
Import ListNotations.
Open Scope Q_scope.

(** * array layout *)
(** the raveled sequence depends on the logical elements only *)
Theorem C04_ravel_logical : forall a b,
  a_rows a = a_rows b -> a_cols a = a_cols b ->
  (forall i j, (i < a_rows a)%nat -> (j < a_cols a)%nat -> get2 a i j = get2 b i j) ->
  ravel2 a = ravel2 b.
Proof. exact ravel2_logical. Qed.
Print Assumptions C04_ravel_logical.

(** a C-contiguous (r, c) array ravels to its buffer ... *)
Theorem C04_ravel_c_array : forall r c l, length l = (r * c)%nat -> ravel2 (c_array r c l) = l.
Proof. exact ravel2_c_array. Qed.
Print Assumptions C04_ravel_c_array.

(** ... its Fortran-ordered copy has the same logical elements and hence the
    same ravel, although its buffer is the transposed sequence *)
Theorem C04_fortran_same_elements : forall a i j,
  (i < a_rows a)%nat -> (j < a_cols a)%nat -> get2 (as_fortran a) i j = get2 a i j.
Proof. exact get2_as_fortran. Qed.
Print Assumptions C04_fortran_same_elements.
Theorem C04_ravel_fortran : forall a, ravel2 (as_fortran a) = ravel2 a /\ a_buf (as_fortran a) = ravel_F a.
Proof. intros a. split; [apply ravel2_as_fortran|apply as_fortran_buffer]. Qed.
Print Assumptions C04_ravel_fortran.

(** a strided view (every second element of a doubled buffer) ravels to the original sequence *)
Theorem C04_ravel_strided : forall l junk, length junk = length l ->
  ravel1 {| v_off := 0; v_step := 2; v_len := length l; v_buf := interleave l junk |} = l.
Proof. exact ravel1_strided. Qed.
Print Assumptions C04_ravel_strided.

(** every model function takes raveled sequences: argument bundles with the
    same sequences (and query shapes that broadcast alike) give the same
    values, reshaped to the same shape; extra coordinates are never read *)
Theorem C04_ravel_only : forall g f f' q q',
  same_sequences f f' -> same_query q q' -> grid_apply g f q = grid_apply g f' q'.
Proof. exact ravel_only. Qed.
Print Assumptions C04_ravel_only.
Theorem C04_extra_coords_ignored : forall g f q ex ex',
  grid_apply g {| f_east := f_east f; f_north := f_north f; f_extra := ex; f_data := f_data f; f_weights := f_weights f |}
             {| q_east := q_east q; q_north := q_north q; q_extra := ex' |} = grid_apply g f q.
Proof. exact extra_coords_ignored. Qed.
Print Assumptions C04_extra_coords_ignored.

(** * the shape of the prediction *)
Theorem C04_broadcast_same : forall s, broadcast_shape s s = Some s.
Proof. exact broadcast_same. Qed.
Print Assumptions C04_broadcast_same.
Theorem C04_broadcast_scalar : forall s, broadcast_shape [] s = Some s /\ broadcast_shape s [] = Some s.
Proof. intros s. split; [apply broadcast_scalar_l|apply broadcast_scalar_r]. Qed.
Print Assumptions C04_broadcast_scalar.
(** a column of m northings against a row (1, n) or a 1-D array (n,) of eastings: the (m, n) grid *)
Theorem C04_broadcast_grid : forall m n,
  broadcast_shape [m; 1%nat] [1%nat; n] = Some [m; n] /\
  broadcast_shape [m; 1%nat] [n] = Some [m; n] /\ broadcast_shape [n] [m; 1%nat] = Some [m; n].
Proof. intros m n. repeat split; [apply broadcast_column_row|apply broadcast_column_1d|apply broadcast_1d_column]. Qed.
Print Assumptions C04_broadcast_grid.
Theorem C04_broadcast_comm : forall a b, broadcast_shape a b = broadcast_shape b a.
Proof. exact broadcast_comm. Qed.
Print Assumptions C04_broadcast_comm.
Theorem C04_broadcast_mismatch : forall a b x y, x <> y -> x <> 1%nat -> y <> 1%nat ->
  broadcast_shape (a ++ [x]) (b ++ [y]) = None.
Proof. exact broadcast_mismatch. Qed.
Print Assumptions C04_broadcast_mismatch.

(** * point order: least squares (Trend, Spline, VectorSpline2D) *)
(** indexing by a permutation is a rearrangement *)
Theorem C04_permute_is_permutation : forall (d : Q) s l, is_perm (length l) s -> Permutation (permute d s l) l.
Proof. exact (@permute_Permutation Q). Qed.
Print Assumptions C04_permute_is_permutation.

(** reordering the rows of the system together with their data and weights
    changes neither the normal-equation residual nor the column scales ... *)
Theorem C04_normal_residual_perm : forall n B B' alpha s2 p, Permutation B B' -> wfm n (rA B) ->
  veq (normal_residual n (rA B) (rD B) (rW B) alpha s2 p) (normal_residual n (rA B') (rD B') (rW B') alpha s2 p).
Proof. exact normal_residual_perm. Qed.
Print Assumptions C04_normal_residual_perm.
Theorem C04_scale2_perm : forall n A A', Permutation A A' -> veq (scale2 n A) (scale2 n A').
Proof. exact scale2_perm. Qed.
Print Assumptions C04_scale2_perm.

(** ... so the reordered problem has exactly the same solutions *)
Theorem C04_normal_eq_perm : forall n B B' alpha p, Permutation B B' -> wfm n (rA B) ->
  (normal_eq n (rA B) (rD B) (rW B) alpha (scale2 n (rA B)) p <->
   normal_eq n (rA B') (rD B') (rW B') alpha (scale2 n (rA B')) p).
Proof. exact normal_eq_perm. Qed.
Print Assumptions C04_normal_eq_perm.

(** the row-list view is the (Jacobian, data, weights) view *)
Theorem C04_bundle : forall A d w, length d = length A -> length w = length A ->
  rA (bundle A d w) = A /\ rD (bundle A d w) = d /\ rW (bundle A d w) = w.
Proof. intros A d w Hd Hw. repeat split; [apply bundle_rA|apply bundle_rD|apply bundle_rW]; assumption. Qed.
Print Assumptions C04_bundle.

(** whenever the minimiser is unique (damped, or undamped with an injective
    Jacobian) the parameters fitted to the reordered data are the original
    ones, and every prediction (through any query Jacobian Qm) is unchanged *)
Theorem C04_fit_perm_damped : forall n B B' alpha p p', Permutation B B' ->
  wfm n (rA B) -> length p = n -> length p' = n ->
  Forall (fun x => 0 <= x) (rW B) -> 0 < alpha ->
  normal_eq n (rA B) (rD B) (rW B) alpha (scale2 n (rA B)) p ->
  normal_eq n (rA B') (rD B') (rW B') alpha (scale2 n (rA B')) p' ->
  veq p' p /\ forall Qm, veq (mv Qm p') (mv Qm p).
Proof. exact ls_fit_perm_damped. Qed.
Print Assumptions C04_fit_perm_damped.
Theorem C04_fit_perm_injective : forall n B B' p p', Permutation B B' ->
  wfm n (rA B) -> length p = n -> length p' = n ->
  Forall (fun x => 0 < x) (rW B) -> injective_on n (rA B) ->
  normal_eq n (rA B) (rD B) (rW B) 0 (scale2 n (rA B)) p ->
  normal_eq n (rA B') (rD B') (rW B') 0 (scale2 n (rA B')) p' ->
  veq p' p /\ forall Qm, veq (mv Qm p') (mv Qm p).
Proof. exact ls_fit_perm_injective. Qed.
Print Assumptions C04_fit_perm_injective.

(** Spline / VectorSpline2D put one force on each data point: reordering the
    points also reorders the COLUMNS of the Jacobian (and of the query
    Jacobian) and the parameters.  The reordered parameters solve the
    reordered system iff the original ones solve the original system, column
    scales included, and the predictions agree *)
Theorem C04_normal_residual_colperm : forall n s A d w alpha s2 p, ls_shapes n A d w s2 p -> is_perm n s ->
  veq (normal_residual n (colperm s A) d w alpha (qpermute s s2) (qpermute s p))
      (qpermute s (normal_residual n A d w alpha s2 p)).
Proof. exact normal_residual_colperm. Qed.
Print Assumptions C04_normal_residual_colperm.
Theorem C04_scale2_colperm : forall n s A, is_perm n s -> scale2 n (colperm s A) = qpermute s (scale2 n A).
Proof. exact scale2_colperm. Qed.
Print Assumptions C04_scale2_colperm.
Theorem C04_normal_eq_colperm : forall n s A d w alpha p, ls_shapes n A d w (scale2 n A) p -> is_perm n s ->
  (normal_eq n (colperm s A) d w alpha (scale2 n (colperm s A)) (qpermute s p) <->
   normal_eq n A d w alpha (scale2 n A) p) /\
  forall Qm, wfm n Qm -> veq (mv (colperm s Qm) (qpermute s p)) (mv Qm p).
Proof. exact normal_eq_colperm. Qed.
Print Assumptions C04_normal_eq_colperm.

(** * point order: KNeighbors (left open by C15) *)
(** with pairwise distinct distances from the query, reordering the data
    points with their values leaves the prediction unchanged - mean, median,
    min and max alike *)
Theorem C04_knn_perm : forall r k s pts vals q, is_perm (length pts) s -> general_position pts q ->
  knn_predict r k (permute p0 s pts) (permute 0 s vals) q == knn_predict r k pts vals q.
Proof. exact knn_perm. Qed.
Print Assumptions C04_knn_perm.
Theorem C04_knn_perm_all : forall r k s pts vals qs, is_perm (length pts) s ->
  (forall q, In q qs -> general_position pts q) ->
  Forall2 Qeq (knn_predict_all r k (permute p0 s pts) (permute 0 s vals) qs) (knn_predict_all r k pts vals qs).
Proof. exact knn_perm_all. Qed.
Print Assumptions C04_knn_perm_all.
(** the k nearest of the reordered cloud, mapped back, are k closest points of the original *)
Theorem C04_closest_set_permute : forall k s pts q, is_perm (length pts) s ->
  closest_set k pts q (map (fun j => nth j s 0%nat) (k_nearest k (permute p0 s pts) q)).
Proof. exact closest_set_permute. Qed.
Print Assumptions C04_closest_set_permute.

(** * linearity in the data *)
(** the normal-equation residual is jointly linear in (parameters, data) ... *)
Theorem C04_normal_residual_linear : forall n A w alpha s2 a p1 d1 b p2 d2,
  ls_shapes n A d1 w s2 p1 -> length p2 = n -> length d2 = length A ->
  veq (normal_residual n A (lin a d1 b d2) w alpha s2 (lin a p1 b p2))
      (lin a (normal_residual n A d1 w alpha s2 p1) b (normal_residual n A d2 w alpha s2 p2)).
Proof. exact normal_residual_lin. Qed.
Print Assumptions C04_normal_residual_linear.
(** ... so solutions superpose (Jacobian, weights, damping and column scales do not depend on the data) *)
Theorem C04_ls_linear : forall n A w alpha s2 a p1 d1 b p2 d2,
  ls_shapes n A d1 w s2 p1 -> length p2 = n -> length d2 = length A ->
  normal_eq n A d1 w alpha s2 p1 -> normal_eq n A d2 w alpha s2 p2 ->
  normal_eq n A (lin a d1 b d2) w alpha s2 (lin a p1 b p2).
Proof. exact ls_linear. Qed.
Print Assumptions C04_ls_linear.
(** with a unique minimiser the fit of a d1 + b d2 IS a fit(d1) + b fit(d2), at every query point *)
Theorem C04_predict_linear_damped : forall n A w alpha s2 a p1 d1 b p2 d2 p12,
  ls_shapes n A d1 w s2 p1 -> length p2 = n -> length d2 = length A -> length p12 = n ->
  Forall (fun x => 0 <= x) w -> Forall (fun x => 0 < x) s2 -> 0 < alpha ->
  normal_eq n A d1 w alpha s2 p1 -> normal_eq n A d2 w alpha s2 p2 ->
  normal_eq n A (lin a d1 b d2) w alpha s2 p12 ->
  veq p12 (lin a p1 b p2) /\
  forall Qm, wfm n Qm -> veq (mv Qm p12) (lin a (mv Qm p1) b (mv Qm p2)).
Proof. exact ls_predict_linear_damped. Qed.
Print Assumptions C04_predict_linear_damped.
Theorem C04_predict_linear_injective : forall n A w s2 a p1 d1 b p2 d2 p12,
  ls_shapes n A d1 w s2 p1 -> length p2 = n -> length d2 = length A -> length p12 = n ->
  Forall (fun x => 0 < x) w -> Forall (fun x => 0 <= x) s2 -> injective_on n A ->
  normal_eq n A d1 w 0 s2 p1 -> normal_eq n A d2 w 0 s2 p2 ->
  normal_eq n A (lin a d1 b d2) w 0 s2 p12 ->
  veq p12 (lin a p1 b p2) /\
  forall Qm, wfm n Qm -> veq (mv Qm p12) (lin a (mv Qm p1) b (mv Qm p2)).
Proof. exact ls_predict_linear_injective. Qed.
Print Assumptions C04_predict_linear_injective.

(** KNeighbors: the neighbour selection never reads the data values, so the mean prediction is linear *)
Theorem C04_knn_selection_ignores_values : forall k pts vals q,
  neighbor_values k pts vals q = map (fun i => nth i vals 0) (k_nearest k pts q).
Proof. exact k_nearest_ignores_values. Qed.
Print Assumptions C04_knn_selection_ignores_values.
Theorem C04_knn_mean_linear : forall k pts v1 v2 a b q, length v1 = length v2 ->
  knn_predict RMean k pts (lin a v1 b v2) q ==
  a * knn_predict RMean k pts v1 q + b * knn_predict RMean k pts v2 q.
Proof. exact knn_mean_linear. Qed.
Print Assumptions C04_knn_mean_linear.

(** * what the run-time comparison decides *)
(** a [true] pair comparison is the rational statement |variant_i - base_i| <= tol for every i, equal lengths *)
Theorem C04_pair_check_sound : forall tol a b, close_lists tol a b = true ->
  Forall2 (fun x y => Qabs (D2Q x - D2Q y) <= D2Q tol) a b.
Proof. exact close_lists_sound. Qed.
Print Assumptions C04_pair_check_sound.
(** a [true] shape check: the observed shape IS the model's broadcast shape and the output has that many elements *)
Theorem C04_shape_check_sound : forall ncomp she shn shout out, shape_okb ncomp she shn shout out = true ->
  broadcast_shape she shn = Some shout /\ length out = (ncomp * shape_size shout)%nat.
Proof. exact shape_okb_sound. Qed.
Print Assumptions C04_shape_check_sound.
(** the Jacobian the Trend cases certify against is the model's exact monomial Jacobian *)
Theorem C04_trend_case_jacobian : forall deg es ns,
  Forall2 veq (DM (dtrend_jacobian deg es ns)) (trend_jacobian deg (combine (map D2Q es) (map D2Q ns))).
Proof. exact dtrend_jacobian_sound. Qed.
Print Assumptions C04_trend_case_jacobian.

(** * non-vacuity *)
(** a 2 x 3 array, its Fortran copy: same ravel, different buffer *)
Definition exa : arr2 := c_array 2 3 [1; 2; 3; 4; 5; 6].
Example C04_nv_ravel : ravel2 exa = [1; 2; 3; 4; 5; 6] /\ ravel2 (as_fortran exa) = [1; 2; 3; 4; 5; 6] /\
  a_buf (as_fortran exa) = [1; 4; 2; 5; 3; 6].
Proof. repeat split; vm_compute; reflexivity. Qed.
Example C04_nv_strided :
  ravel1 {| v_off := 0; v_step := 2; v_len := 3; v_buf := interleave [1; 2; 3] [9; 9; 9] |} = [1; 2; 3].
Proof. vm_compute. reflexivity. Qed.
Example C04_nv_broadcast : broadcast_shape [3%nat; 1%nat] [4%nat] = Some [3%nat; 4%nat] /\
  broadcast_shape [3%nat] [4%nat] = None /\ broadcast_shape [] [] = Some [] /\
  broadcast_shape [2%nat; 1%nat; 5%nat] [3%nat; 1%nat] = Some [2%nat; 3%nat; 5%nat].
Proof. repeat split; vm_compute; reflexivity. Qed.

(** a straight-line fit, its rows reordered: same solution (7/6, 1/2) *)
Definition exB : list lsrow := bundle [[1; 0]; [1; 1]; [1; 2]] [1; 2; 2] [1; 1; 1].
Definition exB' : list lsrow := bundle [[1; 2]; [1; 0]; [1; 1]] [2; 1; 2] [1; 1; 1].
Example C04_nv_perm : Permutation exB exB' /\ wfm 2 (rA exB) /\
  normal_eq 2 (rA exB) (rD exB) (rW exB) 0 (scale2 2 (rA exB)) [7#6; 1#2] /\
  normal_eq 2 (rA exB') (rD exB') (rW exB') 0 (scale2 2 (rA exB')) [7#6; 1#2].
Proof.
  split; [|split; [|split]].
  - unfold exB, exB', bundle. cbn [combine]. apply Permutation_sym. apply Permutation_cons_app with (l1 := [_; _]) (l2 := []).
    rewrite app_nil_r. apply Permutation_refl.
  - repeat constructor.
  - unfold normal_eq, vzero. vm_compute. repeat constructor.
  - unfold normal_eq, vzero. vm_compute. repeat constructor.
Qed.
(** columns reordered by s = [1; 0] *)
Example C04_nv_colperm : is_perm 2 [1%nat; 0%nat] /\
  normal_eq 2 (colperm [1%nat; 0%nat] (rA exB)) (rD exB) (rW exB) 0 (scale2 2 (colperm [1%nat; 0%nat] (rA exB))) [1#2; 7#6].
Proof. split; [apply perm_swap|unfold normal_eq, vzero; vm_compute; repeat constructor]. Qed.
(** superposition: data [1;2;2] -> (7/6, 1/2), data [0;1;2] -> (0, 1); 2 d1 - d2 -> (7/3, 0) *)
Example C04_nv_linear :
  normal_eq 2 (rA exB) [0; 1; 2] (rW exB) 0 (scale2 2 (rA exB)) [0; 1] /\
  lin 2 [1; 2; 2] (-1) [0; 1; 2] = [2 * 1 + -1 * 0; 2 * 2 + -1 * 1; 2 * 2 + -1 * 2] /\
  normal_eq 2 (rA exB) (lin 2 [1; 2; 2] (-1) [0; 1; 2]) (rW exB) 0 (scale2 2 (rA exB)) (lin 2 [7#6; 1#2] (-1) [0; 1]).
Proof. repeat split; try reflexivity; unfold normal_eq, vzero; vm_compute; repeat constructor. Qed.
(** nearest neighbours of a reordered cloud *)
Definition nvp : list pt := [(0, 0); (3, 4); (1, 0); (0, 2 # 1); (5, 5)].
Definition nvs : list nat := [3; 0; 4; 2; 1]%nat.
Example C04_nv_knn : is_perm 5 nvs /\
  knn_predict RMedian 3 nvp [10; 20; 30; 40; 50] (1 # 4, 0) == 30 /\
  knn_predict RMedian 3 (permute p0 nvs nvp) (permute 0 nvs [10; 20; 30; 40; 50]) (1 # 4, 0) == 30 /\
  k_nearest 3 (permute p0 nvs nvp) (1 # 4, 0) = [1; 3; 0]%nat.
Proof.
  split; [|repeat split; vm_compute; reflexivity].
  unfold is_perm, nvs. cbn [seq].
  apply Permutation_sym.
  apply Permutation_cons_app with (l1 := [3%nat]) (l2 := [4; 2; 1]%nat). cbn [app].
  apply Permutation_cons_app with (l1 := [3; 4; 2]%nat) (l2 := []). cbn [app].
  apply Permutation_cons_app with (l1 := [3; 4]%nat) (l2 := []). cbn [app].
  apply Permutation_cons_app with (l1 := []) (l2 := [4%nat]). cbn [app]. apply Permutation_refl.
Qed.
