(** C15  Nearest-neighbour based results agree with brute-force distances.
    Statements only; proofs in Proofs/NeighborsProofs.v.

    Model (Model/Neighbors.v): the k-d tree query is the brute-force sort of the
    data indices by (squared distance to the query, index); [dist2 pts q i] is the
    squared Euclidean distance from [q] to data point [i]. *)
From Coq Require Import QArith Qabs ZArith List Bool Arith Lia Permutation Sorted.
From Verde Require Import Lib.QExtra Lib.ISort Model.Neighbors Proofs.NeighborsProofs Proofs.NeighborsInvariance.
Import ListNotations.
Open Scope Q_scope.

(** the k selected indices: min(k, n) distinct valid indices, and no selected
    point is farther from the query than any point left out *)
Theorem C15_k_nearest_spec : forall k pts q,
  let sel := k_nearest k pts q in
  NoDup sel /\ length sel = Nat.min k (length pts) /\
  (forall i, In i sel -> (i < length pts)%nat) /\
  (forall i j, In i sel -> (j < length pts)%nat -> ~ In j sel -> dist2 pts q i <= dist2 pts q j).
Proof. exact k_nearest_spec. Qed.
Print Assumptions C15_k_nearest_spec.

(** ... listed nearest first *)
Theorem C15_k_nearest_ascending : forall k pts q,
  StronglySorted (fun i j => dist2 pts q i <= dist2 pts q j) (k_nearest k pts q).
Proof. exact k_nearest_ascending. Qed.
Print Assumptions C15_k_nearest_ascending.

(** general position (no two data points equidistant from the query): EXACTLY the
    k closest - any index set with the property above is the selected one *)
Theorem C15_closest_set_unique : forall k pts q sel,
  general_position pts q -> closest_set k pts q sel -> Permutation sel (k_nearest k pts q).
Proof. exact closest_set_unique. Qed.
Print Assumptions C15_closest_set_unique.

(** the checker evaluated on every correspondence case decides that property *)
Theorem C15_closest_setb_spec : forall k pts q sel,
  closest_setb k pts q sel = true <-> closest_set k pts q sel.
Proof. exact closest_setb_spec. Qed.
Print Assumptions C15_closest_setb_spec.

(** KNeighbors.predict: the reduction of the data values of the k nearest points,
    one value per query point, in the order of the query points *)
Theorem C15_knn_predict_spec : forall r k pts vals q,
  closest_set k pts q (k_nearest k pts q) /\
  knn_predict r k pts vals q = reduce r (map (fun i => nth i vals 0) (k_nearest k pts q)).
Proof. exact knn_predict_spec. Qed.
Print Assumptions C15_knn_predict_spec.

Theorem C15_knn_predict_values_unique : forall k pts vals q sel,
  general_position pts q -> closest_set k pts q sel ->
  Permutation (map (fun i => nth i vals 0) sel) (neighbor_values k pts vals q).
Proof. exact knn_predict_values_unique. Qed.
Print Assumptions C15_knn_predict_values_unique.

(** the prediction (mean, median, min or max) is the reduction over ANY set of k closest points, in any order *)
Theorem C15_knn_predict_unique : forall r k pts vals q sel,
  general_position pts q -> closest_set k pts q sel ->
  knn_predict r k pts vals q == reduce r (map (fun i => nth i vals 0) sel).
Proof. exact knn_predict_unique_all. Qed.
Print Assumptions C15_knn_predict_unique.

(** none of the reductions depends on the order of the neighbour values *)
Theorem C15_reduce_perm : forall r l l', Permutation l l' -> reduce r l == reduce r l'.
Proof. exact reduce_perm. Qed.
Print Assumptions C15_reduce_perm.

Theorem C15_knn_shape : forall r k pts vals qs,
  length (knn_predict_all r k pts vals qs) = length qs /\
  forall j, (j < length qs)%nat ->
    nth j (knn_predict_all r k pts vals qs) 0 = knn_predict r k pts vals (nth j qs p0).
Proof. exact knn_shape. Qed.
Print Assumptions C15_knn_shape.

(** what the reductions are *)
Theorem C15_mean_spec : forall l, l <> [] -> mean l * inject_Z (Z.of_nat (length l)) == qsum l.
Proof. exact mean_spec. Qed.
Print Assumptions C15_mean_spec.

Theorem C15_min_max_spec : forall l, l <> [] ->
  (In (qmin_list l) l /\ forall x, In x l -> qmin_list l <= x) /\
  (In (qmax_list l) l /\ forall x, In x l -> x <= qmax_list l).
Proof. exact min_max_spec. Qed.
Print Assumptions C15_min_max_spec.

(** the median is read off a sorted permutation of the values *)
Theorem C15_median_sort : forall l, Permutation (qsort l) l /\ StronglySorted Qle (qsort l).
Proof. exact median_sort. Qed.
Print Assumptions C15_median_sort.

(** median_distance: with pairwise distinct points, the first of the k+1
    neighbours of data point i is i itself; the rest are its k nearest OTHER points *)
Theorem C15_self_is_first : forall k pts i,
  distinct_points pts -> (i < length pts)%nat ->
  exists rest, k_nearest (S k) pts (nth i pts p0) = i :: rest /\
    NoDup rest /\ ~ In i rest /\ length rest = Nat.min k (length pts - 1) /\
    (forall a, In a rest -> (a < length pts)%nat) /\
    (forall a j, In a rest -> (j < length pts)%nat -> j <> i -> ~ In j rest ->
       dist2 pts (nth i pts p0) a <= dist2 pts (nth i pts p0) j).
Proof. exact self_is_first. Qed.
Print Assumptions C15_self_is_first.

(** the squared distances whose roots are medianed: those of [others_nearest], ascending, min(k, n-1) of them *)
Theorem C15_others_d2 : forall k pts i,
  Forall2 (fun d a => d == dist2 pts (nth i pts p0) a) (others_d2 k pts i) (others_nearest k pts i) /\
  StronglySorted Qle (others_d2 k pts i) /\
  length (others_d2 k pts i) = Nat.min k (length pts - 1).
Proof. exact others_d2_all. Qed.
Print Assumptions C15_others_d2.

(** the square-root free test used to compare the observed median distance *)
Theorem C15_mean_of_roots_iff : forall m ra rb, 0 <= m -> 0 <= ra -> 0 <= rb ->
  (m == (ra + rb) / 2 <->
   (sq (sq (2 * m) - sq ra - sq rb) == 4 * sq ra * sq rb /\ sq ra + sq rb <= sq (2 * m))).
Proof. exact mean_of_roots_iff. Qed.
Print Assumptions C15_mean_of_roots_iff.

(** distance_mask: True exactly where some (= the nearest) data point is within maxdist *)
Theorem C15_distance_mask_iff : forall proj maxdist data q,
  distance_mask_proj proj maxdist data q = true <->
  0 <= maxdist /\ exists p, In p data /\ d2 (proj p) (proj q) <= maxdist * maxdist.
Proof. exact distance_mask_proj_iff. Qed.
Print Assumptions C15_distance_mask_iff.

Theorem C15_distance_mask_nearest : forall maxdist data q i,
  k_nearest 1 data q = [i] ->
  (distance_mask maxdist data q = true <-> 0 <= maxdist /\ dist2 data q i <= maxdist * maxdist).
Proof. exact distance_mask_nearest. Qed.
Print Assumptions C15_distance_mask_nearest.

(** squared comparison = comparison of the (nonnegative) distances *)
Theorem C15_dist_le_iff_sq : forall r m, 0 <= r -> 0 <= m -> (r <= m <-> r * r <= m * m).
Proof. exact dist_le_iff_sq. Qed.
Print Assumptions C15_dist_le_iff_sq.

Theorem C15_mask_shape : forall proj maxdist data qs,
  length (distance_mask_all proj maxdist data qs) = length qs /\
  forall j, (j < length qs)%nat ->
    nth j (distance_mask_all proj maxdist data qs) false = distance_mask_proj proj maxdist data (nth j qs p0).
Proof. exact mask_shape. Qed.
Print Assumptions C15_mask_shape.

(** grid form: cell (i, j) (row = northing i, column = easting j, C order) of the mask
    is the array form at (easting j, northing i) *)
Theorem C15_mask_grid_vs_array : forall proj maxdist data east north i j,
  (i < length north)%nat -> (j < length east)%nat ->
  nth (i * length east + j) (mask_grid proj maxdist data east north) false =
  distance_mask_proj proj maxdist data (nth j east 0, nth i north 0).
Proof. exact mask_grid_vs_array. Qed.
Print Assumptions C15_mask_grid_vs_array.

(** ... and the masked grid keeps exactly those cells, unchanged, blanking the others *)
Theorem C15_distance_mask_grid_cell : forall (proj : pt -> pt) maxdist data east north (vals : list Q) d i j,
  length vals = (length north * length east)%nat ->
  (i < length north)%nat -> (j < length east)%nat ->
  nth (i * length east + j) (distance_mask_grid proj maxdist data east north vals) None =
  if distance_mask_proj proj maxdist data (nth j east 0, nth i north 0)
  then Some (nth (i * length east + j) vals d) else None.
Proof. exact (@distance_mask_grid_cell Q). Qed.
Print Assumptions C15_distance_mask_grid_cell.

Theorem C15_distance_mask_grid_length : forall (proj : pt -> pt) maxdist data east north (vals : list Q),
  length vals = (length north * length east)%nat ->
  length (distance_mask_grid proj maxdist data east north vals) = length vals.
Proof. exact (@distance_mask_grid_length Q). Qed.
Print Assumptions C15_distance_mask_grid_length.

(** non-vacuity: a cloud in general position with respect to a query, pairwise distinct *)
Definition nv_pts : list pt := [(0, 0); (3, 4); (1, 0); (0, 2 # 1); (5, 5)].
Example C15_nv_knn : k_nearest 3 nv_pts (1 # 4, 0) = [0%nat; 2%nat; 3%nat] /\
  knn_predict RMean 3 nv_pts [10; 20; 30; 40; 50] (1 # 4, 0) == 80 # 3 /\
  knn_predict RMedian 2 nv_pts [10; 20; 30; 40; 50] (1 # 4, 0) == 20 /\
  knn_predict RMax 4 nv_pts [10; 20; 30; 40; 50] (1 # 4, 0) == 40.
Proof. repeat split; vm_compute; reflexivity. Qed.

Example C15_nv_general_position : general_position nv_pts (1 # 4, 0) /\ distinct_points nv_pts.
Proof.
  split.
  - intros i j Hi Hj Hne. cbn in Hi, Hj.
    destruct i as [|[|[|[|[|i]]]]]; try lia; destruct j as [|[|[|[|[|j]]]]]; try lia; try congruence;
      vm_compute; discriminate.
  - intros i j Hi Hj Hne. cbn in Hi, Hj.
    destruct i as [|[|[|[|[|i]]]]]; try lia; destruct j as [|[|[|[|[|j]]]]]; try lia; try congruence;
      vm_compute; discriminate.
Qed.

Example C15_nv_others : others_nearest 2 nv_pts 0 = [2%nat; 3%nat] /\ median_d2 2 nv_pts 0 = (1, 4).
Proof. split; vm_compute; reflexivity. Qed.

(** 3-4-5: distance exactly 5 is kept, anything shorter is not *)
Example C15_nv_mask : distance_mask 5 [(0, 0)] (3, 4) = true /\ distance_mask (4999 # 1000) [(0, 0)] (3, 4) = false /\
  mask_grid (fun p => p) 1 [(0, 0)] [0; 1; 2] [0; 1] = [true; true; false; true; false; false].
Proof. repeat split; vm_compute; reflexivity. Qed.
