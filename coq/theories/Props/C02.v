(** C02  Fitted models (Trend, Spline, VectorSpline2D) are the weighted, damped
    least-squares optimum.  Statements only; proofs in
    Proofs/LeastSquaresProofs.v and Proofs/LSCertProofs.v.

    Vectors are [list Q], matrices lists of rows, [veq] is component-wise
    equality, [vzero v] says every component is 0.
      Phi A d w alpha s2 p = sum_i w_i (A_i . p - d_i)^2 + alpha sum_j s2_j p_j^2
      normal_residual      = A^T W (A p - d) + alpha S^2 p   (half the gradient)
      normal_eq            = normal_residual is the zero vector
      ls_shapes n A d w s2 p : A has rows of length n, d and w one entry per row,
                               s2 and p have length n. *)
From Coq Require Import QArith Qabs ZArith List Bool Lia.
From Verde Require Import Lib.Dyadic Lib.QExtra Lib.LinAlgQ Lib.LinAlgD Model.LeastSquares Model.LSCases
  Proofs.LeastSquaresProofs Proofs.LSCertProofs.
Import ListNotations.
Open Scope Q_scope.

(** the summation swap everything rests on: (A h) . v = h . (A^T v) *)
Theorem C02_swap : forall n A h v,
  wfm n A -> length h = n -> length v = length A -> dot (mv A h) v == dot h (tmv n A v).
Proof. exact swap. Qed.
Print Assumptions C02_swap.

(** exact second-order expansion of the objective *)
Theorem C02_objective_expansion : forall n A d w alpha s2 p h,
  ls_shapes n A d w s2 p -> length h = n ->
  Phi A d w alpha s2 (vadd p h) ==
  Phi A d w alpha s2 p + 2 * dot h (normal_residual n A d w alpha s2 p)
  + (dot w (vsq (mv A h)) + alpha * dot s2 (vsq h)).
Proof. exact Phi_expand. Qed.
Print Assumptions C02_objective_expansion.

(** parameters satisfying the normal equations minimise the objective over ALL
    parameter vectors (non-negative weights, scales and damping) ... *)
Theorem C02_normal_eq_optimal : forall n A d w alpha s2 p,
  ls_shapes n A d w s2 p ->
  Forall (fun x => 0 <= x) w -> Forall (fun x => 0 <= x) s2 -> 0 <= alpha ->
  normal_eq n A d w alpha s2 p ->
  forall p', length p' = n -> Phi A d w alpha s2 p <= Phi A d w alpha s2 p'.
Proof. exact normal_eq_optimal. Qed.
Print Assumptions C02_normal_eq_optimal.

(** ... and conversely every minimiser satisfies them *)
Theorem C02_optimal_normal_eq : forall n A d w alpha s2 p,
  ls_shapes n A d w s2 p ->
  (forall p', length p' = n -> Phi A d w alpha s2 p <= Phi A d w alpha s2 p') ->
  normal_eq n A d w alpha s2 p.
Proof. exact optimal_normal_eq. Qed.
Print Assumptions C02_optimal_normal_eq.

(** the code's un-scaling is right: [c] solves the problem on the scaled
    Jacobian A S^-1 with the plain penalty alpha |c|^2  iff  c / s solves the
    problem on A with the penalty alpha sum_j s_j^2 p_j^2 *)
Theorem C02_scaling_undone : forall n s A d w alpha c,
  nonzero_vec s -> wfm n A -> length s = n -> length c = n -> length d = length A -> length w = length A ->
  (solves_scaled n s A d w alpha c <-> normal_eq n A d w alpha (vmul s s) (unscale s c)).
Proof. exact scaling_undone. Qed.
Print Assumptions C02_scaling_undone.

(** the code path as a whole: whatever the solver returns for the scaled
    problem, divided by the scale, minimises the property's objective *)
Theorem C02_code_path_minimises : forall n s A d w alpha c,
  Forall (fun x => 0 < x) s -> wfm n A -> length s = n -> length c = n ->
  length d = length A -> length w = length A ->
  Forall (fun x => 0 <= x) w -> 0 <= alpha ->
  solves_scaled n s A d w alpha c ->
  forall p', length p' = n ->
    Phi A d w alpha (vmul s s) (unscale s c) <= Phi A d w alpha (vmul s s) p'.
Proof. exact code_path_minimises. Qed.
Print Assumptions C02_code_path_minimises.

(** the squared scale (StandardScaler, with_mean=False): population variance
    of the column, 1 for an exactly constant column, always positive *)
Theorem C02_scale_constant_column : forall l c, (forall x, In x l -> x == c) -> scale2_of l == 1.
Proof. exact scale2_of_constant. Qed.
Print Assumptions C02_scale_constant_column.
Theorem C02_scale_is_variance : forall l, ~ pvar l == 0 -> scale2_of l == pvar l.
Proof. exact scale2_of_variance. Qed.
Print Assumptions C02_scale_is_variance.
Theorem C02_scale_positive : forall n A, Forall (fun x => 0 < x) (scale2 n A).
Proof. exact scale2_pos. Qed.
Print Assumptions C02_scale_positive.

(** predictions at the data points are the same for ANY two minimisers
    (strictly positive weights): an independently solved problem predicts the
    same values *)
Theorem C02_predictions_unique : forall n A d w alpha s2 p q,
  ls_shapes n A d w s2 p -> length q = n ->
  Forall (fun x => 0 < x) w -> Forall (fun x => 0 <= x) s2 -> 0 <= alpha ->
  normal_eq n A d w alpha s2 p -> normal_eq n A d w alpha s2 q ->
  veq (mv A q) (mv A p).
Proof. exact optimal_predictions_unique. Qed.
Print Assumptions C02_predictions_unique.

(** the minimiser itself is unique when damped, or undamped with an injective
    design matrix: then predictions agree everywhere *)
Theorem C02_optimum_unique_damped : forall n A d w alpha s2 p q,
  ls_shapes n A d w s2 p -> length q = n ->
  Forall (fun x => 0 <= x) w -> Forall (fun x => 0 < x) s2 -> 0 < alpha ->
  normal_eq n A d w alpha s2 p -> normal_eq n A d w alpha s2 q -> veq q p.
Proof. exact optimal_unique_damped. Qed.
Print Assumptions C02_optimum_unique_damped.
Theorem C02_optimum_unique_injective : forall n A d w s2 p q,
  ls_shapes n A d w s2 p -> length q = n ->
  Forall (fun x => 0 < x) w -> Forall (fun x => 0 <= x) s2 -> injective_on n A ->
  normal_eq n A d w 0 s2 p -> normal_eq n A d w 0 s2 q -> veq q p.
Proof. exact optimal_unique_injective. Qed.
Print Assumptions C02_optimum_unique_injective.

(** multiplying all weights by k is the same as dividing the damping by k ... *)
Theorem C02_weights_scale_general : forall n A d w alpha s2 p k, ~ k == 0 ->
  (normal_eq n A d (vscale k w) (k * alpha) s2 p <-> normal_eq n A d w alpha s2 p).
Proof. exact weights_scale_general. Qed.
Print Assumptions C02_weights_scale_general.
(** ... so an undamped fit is unchanged *)
Theorem C02_weights_scale_invariant : forall n A d w s2 p k, 0 < k ->
  (normal_eq n A d (vscale k w) 0 s2 p <-> normal_eq n A d w 0 s2 p).
Proof. exact weights_scale_invariant. Qed.
Print Assumptions C02_weights_scale_invariant.

(** PARTIAL (end point of the limit only): with weight exactly 0 a datum drops
    out of the normal equations - same solutions as the system without its
    row.  The statement "as the weight TENDS to zero" (continuity of the
    minimiser in the weights) is not proved; it is observed on the
    implementation with weight 1e-12 (harness stream meta-weight-to-zero).
    The penalty scales [s2] are the same on both sides: for a DAMPED fit the
    code computes them from all Jacobian rows, including the zero-weight one. *)
Theorem C02_zero_weight_drops_datum_partial : forall n A1 r A2 d1 x d2 w1 wi w2 alpha s2 p,
  wfm n (A1 ++ r :: A2) -> length d1 = length A1 -> length w1 = length A1 -> wi == 0 ->
  (normal_eq n (A1 ++ r :: A2) (d1 ++ x :: d2) (w1 ++ wi :: w2) alpha s2 p <->
   normal_eq n (A1 ++ A2) (d1 ++ d2) (w1 ++ w2) alpha s2 p).
Proof. exact zero_weight_drops_datum_eq. Qed.
Print Assumptions C02_zero_weight_drops_datum_partial.
(** undamped, the penalty scales do not matter at all *)
Theorem C02_undamped_any_scale : forall n A d w s2 s2' p,
  length s2 = n -> length s2' = n -> length p = n -> wfm n A ->
  (normal_eq n A d w 0 s2 p <-> normal_eq n A d w 0 s2' p).
Proof. exact normal_eq_undamped_any_scale. Qed.
Print Assumptions C02_undamped_any_scale.

(** what the run-time certificate means: the dyadic check [ls_cert] is the
    rational statement "normal equations hold up to tol x evaluation bound",
    with the squared scales the exact column variances of the Jacobian ... *)
Theorem C02_certificate_sound : forall tolexp n A d w p alpha,
  ls_cert tolexp n A d w p alpha = true ->
  ls_shapes n (DM A) (Dv d) (Dv w) (scale2 n (DM A)) (Dv p) /\
  approx_normal_eq (pow2 tolexp) n (DM A) (Dv d) (Dv w) (D2Q alpha) (scale2 n (DM A)) (Dv p).
Proof. exact ls_cert_sound. Qed.
Print Assumptions C02_certificate_sound.
(** ... and that makes the fitted parameters optimal up to a first-order term *)
Theorem C02_certificate_near_optimal : forall tol n A d w alpha s2 p,
  ls_shapes n A d w s2 p ->
  Forall (fun x => 0 <= x) w -> Forall (fun x => 0 <= x) s2 -> 0 <= alpha ->
  approx_normal_eq tol n A d w alpha s2 p ->
  forall p', length p' = n ->
    Phi A d w alpha s2 p <=
    Phi A d w alpha s2 p' + 2 * tol * dot (vabs (vsub p' p)) (residual_bound n A d w alpha s2 p).
Proof. exact approx_normal_eq_near_optimal. Qed.
Print Assumptions C02_certificate_near_optimal.

(** ** non-vacuity *)
Definition exA : list (list Q) := [[1; 0]; [1; 1]; [1; 2]].
Definition exd : list Q := [1; 2; 2].
Definition exw : list Q := [1; 1; 1].
(** an undamped straight-line fit: p = (7/6, 1/2) *)
Example ex_normal_eq : normal_eq 2 exA exd exw 0 (scale2 2 exA) [7#6; 1#2].
Proof. unfold normal_eq, vzero. vm_compute. repeat constructor. Qed.
Example ex_shapes : ls_shapes 2 exA exd exw (scale2 2 exA) [7#6; 1#2].
Proof. unfold ls_shapes, wfm. repeat split; repeat constructor. Qed.
(** the first column is constant (scale 1), the second has variance 2/3 *)
Example ex_scale2 : veq (scale2 2 exA) [1; 2#3].
Proof. unfold veq. vm_compute. repeat constructor. Qed.
(** a damped fit with non-trivial scales: alpha = 3/2: (3+3/2) p0 + 3 p1 = 5, 3 p0 + (5 + 1) p1 = 6 *)
Example ex_normal_eq_damped : normal_eq 2 exA exd exw (3#2) (scale2 2 exA) [2#3; 2#3].
Proof. unfold normal_eq, vzero. vm_compute. repeat constructor. Qed.
(** the scaled problem the solver sees, with s = (1, sqrt(2/3)) not rational: use s = (1, 2) on another example *)
Example ex_scaled : solves_scaled 2 [1; 2] exA exd exw 0 [7#6; 1] /\ unscale [1; 2] [7#6; 1] = [(7#6) / 1; 1 / 2].
Proof. split; [unfold solves_scaled, normal_eq, vzero; vm_compute; repeat constructor|reflexivity]. Qed.
(** zero weight: the outlier 100 in the second row does not matter *)
Example ex_zero_weight :
  normal_eq 2 ([[1; 0]] ++ [1; 1] :: [[1; 2]; [1; 3]]) ([1] ++ 100 :: [3; 4]) ([1] ++ 0 :: [1; 1]) 0 [1; 1] [1; 1] /\
  normal_eq 2 ([[1; 0]] ++ [[1; 2]; [1; 3]]) ([1] ++ [3; 4]) ([1] ++ [1; 1]) 0 [1; 1] [1; 1].
Proof. split; unfold normal_eq, vzero; vm_compute; repeat constructor. Qed.
(** the dyadic certificate accepts an exact dyadic solution and rejects a perturbed one *)
Example ex_cert :
  ls_cert (-30) 2 [[(1,0); (0,0)]; [(1,0); (1,0)]; [(1,0); (1,1)]]%Z [(1,0); (3,0); (5,0)]%Z [(1,0); (1,0); (1,0)]%Z
          [(1,0); (1,1)]%Z (0,0)%Z = true /\
  ls_cert (-30) 2 [[(1,0); (0,0)]; [(1,0); (1,0)]; [(1,0); (1,1)]]%Z [(1,0); (3,0); (5,0)]%Z [(1,0); (1,0); (1,0)]%Z
          [(1,0); (2049,-10)]%Z (0,0)%Z = false.
Proof. split; vm_compute; reflexivity. Qed.
