(** C13  Regions, bounds and point-in-region tests are tight and consistent.
    Statements only; proofs in Proofs/RegionProofs.v and Proofs/ProjectRegionProofs.v. *)
From Coq Require Import QArith Qround Qabs ZArith List Bool Lia Lqa.
From Verde Require Import Lib.QExtra Model.Coordinates Model.ProjectRegion Proofs.CoordinatesProofs Proofs.RegionProofs
  Proofs.ProjectRegionProofs.
Import ListNotations.
Open Scope Q_scope.

(** regions with W > E, S > N or a wrong length are rejected - and only those *)
Theorem C13_check_region_iff : forall r,
  check_region r = true <-> exists w e s n, r = [w; e; s; n] /\ w <= e /\ s <= n.
Proof. exact check_region_iff. Qed.
Print Assumptions C13_check_region_iff.

(** inside is exactly the closed-box predicate, element-wise, in the input's shape *)
Theorem C13_inside_iff : forall r east north bs,
  length east = length north ->
  inside r east north = Some bs ->
  exists w e s n, r = [w; e; s; n] /\ w <= e /\ s <= n /\
    length bs = length east /\
    forall i, (i < length east)%nat ->
      (nth i bs false = true <->
       (w <= nth i east 0 /\ nth i east 0 <= e) /\ (s <= nth i north 0 /\ nth i north 0 <= n)).
Proof. exact inside_iff. Qed.
Print Assumptions C13_inside_iff.

Theorem C13_inside_rejects : forall r east north, check_region r = false -> inside r east north = None.
Proof. exact inside_rejects. Qed.
Print Assumptions C13_inside_rejects.

(** get_region is the tight bounding box: all points within, every bound attained *)
Theorem C13_get_region_tight : forall east north w e s n,
  get_region east north = Some (w, e, s, n) ->
  (forall x, In x east -> w <= x /\ x <= e) /\ (forall y, In y north -> s <= y /\ y <= n) /\
  In w east /\ In e east /\ In s north /\ In n north.
Proof. exact get_region_tight. Qed.
Print Assumptions C13_get_region_tight.

Theorem C13_get_region_valid : forall east north w e s n,
  get_region east north = Some (w, e, s, n) -> check_region [w; e; s; n] = true.
Proof. exact get_region_valid. Qed.
Print Assumptions C13_get_region_valid.

(** every point is inside its own bounding region *)
Theorem C13_inside_own_region : forall east north w e s n bs,
  length east = length north ->
  get_region east north = Some (w, e, s, n) ->
  inside [w; e; s; n] east north = Some bs ->
  forall i, (i < length east)%nat -> nth i bs false = true.
Proof. exact inside_own_region. Qed.
Print Assumptions C13_inside_own_region.

(** nodes of grid_coordinates (a shape, or a spacing adjusted to the region;
    both registrations) lie inside the requested region *)
Theorem C13_grid_nodes_inside : forall w e s n shape spacing pix extra mesh g,
  (forall sp, spacing = Some sp -> Forall (fun x => 0 < x) sp) ->
  grid_coordinates [w; e; s; n] shape spacing 0 pix extra mesh = Some g ->
  (forall x, In x (g_east1 g) -> w <= x /\ x <= e) /\
  (forall y, In y (g_north1 g) -> s <= y /\ y <= n).
Proof. exact grid_nodes_inside. Qed.
Print Assumptions C13_grid_nodes_inside.

(** scatter_points: lower + (upper - lower) u, 0 <= u < 1 *)
Theorem C13_scatter_inside : forall lower upper u, lower <= upper -> 0 <= u -> u < 1 ->
  lower <= lower + (upper - lower) * u /\ lower + (upper - lower) * u <= upper.
Proof. exact scatter_inside. Qed.
Print Assumptions C13_scatter_inside.

(** pad_region moves each bound outwards by (north, east) amounts; undone by the opposite pad *)
Theorem C13_pad_moves_outwards : forall w e s n pn pe,
  pad_region (w, e, s, n) pn pe = (w - pe, e + pe, s - pn, n + pn).
Proof. exact pad_moves_outwards. Qed.
Print Assumptions C13_pad_moves_outwards.

Theorem C13_pad_unpad : forall r pn pe, region_eq (pad_region (pad_region r pn pe) (- pn) (- pe)) r.
Proof. exact pad_unpad. Qed.
Print Assumptions C13_pad_unpad.

(** maxabs is the largest absolute value over all arrays *)
Theorem C13_maxabs_spec : forall arrays,
  (forall a x, In a arrays -> In x a -> Qabs x <= maxabs arrays) /\
  ((exists a, In a arrays /\ a <> []) ->
   exists a x, In a arrays /\ In x a /\ maxabs arrays == Qabs x).
Proof. exact maxabs_spec. Qed.
Print Assumptions C13_maxabs_spec.

(** project_region returns the bounding box of the projected region.  For ANY
    projection (f, g) each returned bound is the projection of a point of the
    region (so the box never exceeds that of the projected region) ... *)
Theorem C13_project_region_attained : forall f g w e s n bw be bs bn,
  project_region f g [w; e; s; n] = Some (bw, be, bs, bn) ->
  (exists x y, in_box w e s n x y /\ f x y = bw) /\ (exists x y, in_box w e s n x y /\ f x y = be) /\
  (exists x y, in_box w e s n x y /\ g x y = bs) /\ (exists x y, in_box w e s n x y /\ g x y = bn).
Proof. intros f g w e s n bw be bs bn. exact (project_region_attained f g w e s n bw be bs bn 101). Qed.
Print Assumptions C13_project_region_attained.

(** ... and for projections monotone in each coordinate (in a direction not
    depending on the other coordinate) it contains the projection of EVERY
    point of the region: it is exactly the bounding box of the projected
    region.  (For non-monotone projections this fails in general - an extreme
    strictly between the 101 x 101 nodes is missed; the correspondence check
    compares those with the box of the projected nodes.) *)
Theorem C13_project_region_monotone_exact : forall f g w e s n bw be bs bn,
  project_region f g [w; e; s; n] = Some (bw, be, bs, bn) ->
  cw_monotone f -> cw_monotone g ->
  forall x y, in_box w e s n x y -> bw <= f x y /\ f x y <= be /\ bs <= g x y /\ g x y <= bn.
Proof. intros f g w e s n bw be bs bn H. exact (project_region_contains f g w e s n bw be bs bn 101 ltac:(lia) H). Qed.
Print Assumptions C13_project_region_monotone_exact.

Theorem C13_project_region_rejects : forall f g r, check_region r = false -> project_region f g r = None.
Proof. exact project_region_rejects. Qed.
Print Assumptions C13_project_region_rejects.

Theorem C13_project_region_total : forall f g w e s n, w <= e -> s <= n ->
  exists b, project_region f g [w; e; s; n] = Some b.
Proof. exact project_region_total. Qed.
Print Assumptions C13_project_region_total.

(** non-vacuity: the documentation's projection (2x, -y) is coordinate-wise
    monotone and gives the documented box on the documented region; a shear is
    coordinate-wise monotone too *)
Example C13_project_region_nv :
  cw_monotone (fun x _ => 2 * x) /\ cw_monotone (fun _ y => - y) /\ cw_monotone (fun x y => x + (1 # 2) * y) /\
  match project_region (fun x _ => 2 * x) (fun _ y => - y) [3; 5; -9; -4] with
  | Some (a, b, c, d) => Qeqb a 6 && Qeqb b 10 && Qeqb c 4 && Qeqb d 9 = true
  | None => False
  end.
Proof. exact project_region_nv. Qed.

Example C13_nv : check_region [0; 5; -3; 2] = true /\ check_region [5; 0; 0; 1] = false /\
  inside [0; 5; -3; 2] [0; 5; 6] [2; -3; 0] = Some [true; true; false].
Proof. repeat split; reflexivity. Qed.
