(** C03  Predictions evaluate the documented analytic models with the fitted parameters.
    Statements only; proofs in Proofs/KernelsProofs.v (real-valued kernels: the
    standard library's Reals axioms appear under Print Assumptions) and
    Proofs/TrendProofs.v (loops, monomial order: axiom-free). *)
From Coq Require Import Reals QArith List Arith Sorted Permutation.
From Verde Require Import Model.Kernels Model.Trend Proofs.KernelsProofs Proofs.TrendProofs.
Import ListNotations.

(** * Biharmonic spline kernel (verde/spline.py greens_func_numpy) *)
Section Spline.
Open Scope R_scope.

(** both branches of the code compute r^2 (ln r - 1) for r > 0 ... *)
Theorem C03_g_code_eq : forall r, 0 < r -> g_code r = r ^ 2 * (ln r - 1).
Proof. exact g_code_eq. Qed.
Print Assumptions C03_g_code_eq.

(** ... g(0) = 0 (no logarithm of 0 is taken), which is the continuous extension ... *)
Theorem C03_g_code_0 : g_code 0 = 0.
Proof. exact g_code_0. Qed.
Print Assumptions C03_g_code_0.

Theorem C03_g_code_small_bound : forall r, 0 <= r <= 1 -> Rabs (g_code r) <= r.
Proof. exact g_code_small_bound. Qed.
Print Assumptions C03_g_code_small_bound.

(** ... and the branch switch at r = 1 is seamless *)
Theorem C03_branches_agree_at_1 : g_small 1 = g_big 1 /\ g_code 1 = -1.
Proof. exact branches_agree_at_1. Qed.
Print Assumptions C03_branches_agree_at_1.

Theorem C03_branches_agree : forall r, 0 < r -> g_small r = g_big r.
Proof. exact branches_agree. Qed.
Print Assumptions C03_branches_agree.

(** a Spline.jacobian entry is g of (Euclidean distance + mindist) *)
Theorem C03_spline_entry_formula : forall e n fe fn md, 0 <= md ->
  spline_entry e n fe fn md = g_spec (sqrt ((e - fe) * (e - fe) + (n - fn) * (n - fn)) + md).
Proof. exact spline_entry_formula. Qed.
Print Assumptions C03_spline_entry_formula.

(** finite (exactly 0) for coincident points with the default mindist = 0 *)
Theorem C03_spline_entry_coincident : forall e n, spline_entry e n e n 0 = 0.
Proof. exact spline_entry_coincident. Qed.
Print Assumptions C03_spline_entry_coincident.

(** the matrix depends on coordinate differences only *)
Theorem C03_spline_entry_differences : forall e n fe fn e' n' fe' fn' md,
  e - fe = e' - fe' -> n - fn = n' - fn' -> spline_entry e n fe fn md = spline_entry e' n' fe' fn' md.
Proof. exact spline_entry_differences. Qed.
Print Assumptions C03_spline_entry_differences.

Theorem C03_spline_entry_translation : forall e n fe fn md a b,
  spline_entry (e + a) (n + b) (fe + a) (fn + b) md = spline_entry e n fe fn md.
Proof. exact spline_entry_translation. Qed.
Print Assumptions C03_spline_entry_translation.

(** predictions: sum over the forces of force x g(distance) *)
Theorem C03_spline_predict_is_sum : forall e n md forces, 0 <= md ->
  spline_predict e n md forces = spline_sum e n md forces.
Proof. exact spline_predict_is_sum. Qed.
Print Assumptions C03_spline_predict_is_sum.
End Spline.

(** * Elastic kernels (verde/vector.py greens_func_2d) *)
Section Elastic.
Open Scope R_scope.

(** the code's terms are Sandwell & Wessel's q, p, w with r = distance + mindist *)
Theorem C03_elastic_formulas : forall dx dy md nu, 0 < dist dx dy md ->
  let r := dist dx dy md in
  g_ee dx dy md nu = (3 - nu) * ln r + (1 + nu) * dy ^ 2 / r ^ 2 /\
  g_nn dx dy md nu = (3 - nu) * ln r + (1 + nu) * dx ^ 2 / r ^ 2 /\
  g_ne dx dy md nu = - (1 + nu) * dx * dy / r ^ 2.
Proof. exact elastic_formulas. Qed.
Print Assumptions C03_elastic_formulas.

(** mindist = 0: exactly the formulas of the paper, r^2 = dx^2 + dy^2 *)
Theorem C03_elastic_sandwell_wessel : forall dx dy nu, dx <> 0 \/ dy <> 0 ->
  let r2 := dx ^ 2 + dy ^ 2 in
  g_ee dx dy 0 nu = (3 - nu) * ln (sqrt r2) + (1 + nu) * dy ^ 2 / r2 /\
  g_nn dx dy 0 nu = (3 - nu) * ln (sqrt r2) + (1 + nu) * dx ^ 2 / r2 /\
  g_ne dx dy 0 nu = - (1 + nu) * dx * dy / r2.
Proof. exact elastic_sandwell_wessel. Qed.
Print Assumptions C03_elastic_sandwell_wessel.

(** a positive mindist keeps ln's argument and the divisor positive - also for coincident points *)
Theorem C03_elastic_defined : forall dx dy md, 0 < md -> 0 < dist dx dy md /\ 0 < dist dx dy md ^ 2.
Proof. exact elastic_defined. Qed.
Print Assumptions C03_elastic_defined.

(** the code divides the coordinate differences by the distance: ratios bounded by 1, so no
    intermediate overflows however small the (positive) distance or mindist is *)
Theorem C03_elastic_ratio_bounded : forall dx dy md, 0 <= md -> 0 < dist dx dy md ->
  Rabs (dx / dist dx dy md) <= 1 /\ Rabs (dy / dist dx dy md) <= 1.
Proof. exact elastic_ratio_bounded. Qed.
Print Assumptions C03_elastic_ratio_bounded.

Theorem C03_elastic_coincident : forall md nu, 0 < md ->
  g_ee 0 0 md nu = (3 - nu) * ln md /\ g_nn 0 0 md nu = (3 - nu) * ln md /\ g_ne 0 0 md nu = 0.
Proof. exact elastic_coincident. Qed.
Print Assumptions C03_elastic_coincident.

(** Poisson ratio -1 uncouples the components *)
Theorem C03_elastic_uncoupled : forall dx dy md, 0 < dist dx dy md ->
  g_ne dx dy md (-1) = 0 /\ g_ee dx dy md (-1) = 4 * ln (dist dx dy md) /\
  g_nn dx dy md (-1) = 4 * ln (dist dx dy md).
Proof. exact elastic_uncoupled. Qed.
Print Assumptions C03_elastic_uncoupled.

(** the 2 x 2 block layout of VectorSpline2D.jacobian: east rows / columns first, the same J_ne off the diagonal *)
Theorem C03_elastic_block_layout : forall pts forces md nu i j,
  (i < length pts)%nat -> (j < length forces)%nat ->
  let np := length pts in let nf := length forces in
  let dx := fst (nth i pts (0, 0)) - fst (nth j forces (0, 0)) in
  let dy := snd (nth i pts (0, 0)) - snd (nth j forces (0, 0)) in
  vec_entry pts forces md nu i j = g_ee dx dy md nu /\
  vec_entry pts forces md nu i (nf + j) = g_ne dx dy md nu /\
  vec_entry pts forces md nu (np + i) j = g_ne dx dy md nu /\
  vec_entry pts forces md nu (np + i) (nf + j) = g_nn dx dy md nu.
Proof. exact elastic_block_layout. Qed.
Print Assumptions C03_elastic_block_layout.

(** forces under the data points: the whole matrix is symmetric *)
Theorem C03_elastic_symmetric : forall pts md nu i j,
  vec_entry pts pts md nu i j = vec_entry pts pts md nu j i.
Proof. exact elastic_symmetric. Qed.
Print Assumptions C03_elastic_symmetric.

Theorem C03_vec_entry_translation : forall pts forces md nu a b i j,
  (i < 2 * length pts)%nat -> (j < 2 * length forces)%nat ->
  vec_entry (map (shift a b) pts) (map (shift a b) forces) md nu i j = vec_entry pts forces md nu i j.
Proof. exact vec_entry_translation. Qed.
Print Assumptions C03_vec_entry_translation.

(** CheckerBoard: default wavelengths are half of the region; periodic with the wavelengths *)
Theorem C03_checker_default_formula : forall amp w e_ s n_ e n,
  checker_default amp w e_ s n_ e n =
  amp * sin (2 * PI / ((e_ - w) / 2) * e) * cos (2 * PI / ((n_ - s) / 2) * n).
Proof. exact checker_default_formula. Qed.
Print Assumptions C03_checker_default_formula.

(** w_east / w_north: each direction defaults independently of the other *)
Theorem C03_checker_options : forall amp w e_ s n_ we wn e n,
  checker_opt amp w e_ s n_ None None e n = checker amp ((e_ - w) / 2) ((n_ - s) / 2) e n /\
  checker_opt amp w e_ s n_ (Some we) None e n = checker amp we ((n_ - s) / 2) e n /\
  checker_opt amp w e_ s n_ None (Some wn) e n = checker amp ((e_ - w) / 2) wn e n /\
  checker_opt amp w e_ s n_ (Some we) (Some wn) e n = checker amp we wn e n.
Proof. exact checker_options. Qed.
Print Assumptions C03_checker_options.

Theorem C03_checker_periodic : forall amp we wn e n, we <> 0 -> wn <> 0 ->
  checker amp we wn (e + we) n = checker amp we wn e n /\
  checker amp we wn e (n + wn) = checker amp we wn e n.
Proof. exact checker_periodic. Qed.
Print Assumptions C03_checker_periodic.
End Elastic.

(** * predict = jacobian x parameters (axiom-free, any kernel table) *)
Section Loops.
Open Scope Q_scope.

Theorem C03_predict_is_jacobian_times_params : forall (K : nat -> nat -> Q) n m f,
  length (predict_loop (cols_of K n m) f (zeros n)) = n /\
  forall i, (i < n)%nat ->
    nth i (predict_loop (cols_of K n m) f (zeros n)) 0 == nth i (mv (jac_of K n m) f) 0.
Proof. exact predict_is_jacobian_times_params. Qed.
Print Assumptions C03_predict_is_jacobian_times_params.

Theorem C03_predict2_is_jacobian_times_params : forall (Kee Knn Kne : nat -> nat -> Q) n m fe fn,
  length fe = m -> length fn = m ->
  let r := predict2_loop (cols_of Kee n m) (cols_of Knn n m) (cols_of Kne n m) fe fn (zeros n) (zeros n) in
  let Jf := mv (jac2_of Kee Knn Kne n m) (fe ++ fn) in
  length (fst r) = n /\ length (snd r) = n /\ length Jf = (2 * n)%nat /\
  forall i, (i < n)%nat ->
    nth i (fst r) 0 == nth i Jf 0 /\ nth i (snd r) 0 == nth (n + i) Jf 0.
Proof. exact predict2_is_jacobian_times_params. Qed.
Print Assumptions C03_predict2_is_jacobian_times_params.

(** Trend.predict is the polynomial with coef_ over the monomials of Trend.jacobian's row *)
Theorem C03_trend_predict_is_polynomial : forall N coef east north,
  let pts := combine east north in
  length (trend_predict N coef east north) = length pts /\
  forall i, (i < length pts)%nat ->
    nth i (trend_predict N coef east north) 0 ==
    dot (trend_row N (fst (nth i pts (0, 0))) (snd (nth i pts (0, 0)))) coef.
Proof. exact trend_predict_is_polynomial. Qed.
Print Assumptions C03_trend_predict_is_polynomial.

Theorem C03_trend_predict_is_jacobian_times_coef : forall N coef east north i,
  (i < length (combine east north))%nat ->
  nth i (trend_predict N coef east north) 0 == nth i (mv (trend_jacobian N east north) coef) 0.
Proof. exact trend_predict_is_jacobian_times_coef. Qed.
Print Assumptions C03_trend_predict_is_jacobian_times_coef.
End Loops.

(** * polynomial_power_combinations (verde/trend.py): the monomial order *)
Section Monomials.
Open Scope nat_scope.

(** (N+1)(N+2)/2 coefficients *)
Theorem C03_combos_length : forall N, 2 * length (power_combinations N) = (N + 1) * (N + 2).
Proof. exact combos_length. Qed.
Print Assumptions C03_combos_length.

(** x^i y^j occurs iff i + j <= N, exactly once *)
Theorem C03_combos_complete : forall N,
  NoDup (power_combinations N) /\ forall i j, In (i, j) (power_combinations N) <-> i + j <= N.
Proof. exact combos_complete. Qed.
Print Assumptions C03_combos_complete.

(** total degree is non-decreasing along the list *)
Theorem C03_combos_sorted : forall N, StronglySorted (fun a b => deg a <= deg b) (power_combinations N).
Proof. exact combos_sorted. Qed.
Print Assumptions C03_combos_sorted.

(** within degree d the order is (d, 0), (d-1, 1), ..., (0, d): Python's sort is stable *)
Theorem C03_combos_within_degree : forall N d, d <= N ->
  filter (fun c => deg c =? d) (power_combinations N) = map (fun j => (d - j, j)) (seq 0 (d + 1)).
Proof. exact combos_within_degree. Qed.
Print Assumptions C03_combos_within_degree.

(** altogether: generator + stable sort = the documented list, for every degree *)
Theorem C03_combos_closed_form : forall N,
  power_combinations N = flat_map (fun d => map (fun j => (d - j, j)) (seq 0 (d + 1))) (seq 0 (N + 1)).
Proof. exact combos_closed_form. Qed.
Print Assumptions C03_combos_closed_form.
End Monomials.

(** * non-vacuity *)
Example C03_nv_combos :
  power_combinations 2 = [(0, 0); (1, 0); (0, 1); (2, 0); (1, 1); (0, 2)]%nat /\
  gen_combos 2 = [(0, 0); (1, 0); (2, 0); (0, 1); (1, 1); (0, 2)]%nat.
Proof. split; reflexivity. Qed.

(** degree 1, coefficients (10, 2, -1/2) at (e, n) = (3, 4): 10 + 2*3 - 4/2 = 14 *)
Example C03_nv_trend : (map Qred (trend_predict 1 [10; 2; -(1#2)] [3; 0] [4; 1]) = [14; 19 # 2])%Q.
Proof. vm_compute. reflexivity. Qed.

Example C03_nv_loop :
  (nth 1 (predict_loop (cols_of (fun i j => inject_Z (Z.of_nat (i + 2 * j))) 2 3) [1; 2; 3] (zeros 2)) 0 == 22)%Q.
Proof. vm_compute. reflexivity. Qed.

Example C03_nv_kernel : (g_code 1 = -1)%R /\ (0 < dist 0 0 (1/2))%R /\ (g_ne 3 4 0 (-1) = 0)%R.
Proof.
  split; [exact (proj2 branches_agree_at_1)|]. split.
  - apply dist_pos_mindist. apply Rlt_gt. apply Rdiv_lt_0_compat; [apply Rlt_0_1|apply Rlt_0_2].
  - apply (elastic_uncoupled 3 4 0). apply dist_pos_apart; [apply Rle_refl|]. left. apply not_0_IZR. discriminate.
Qed.
