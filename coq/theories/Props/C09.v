(** C09  BlockReduce.filter returns one correctly reduced value per non-empty
    block.  Statements only; proofs are in Proofs/BlockReduceProofs.v.

    Vocabulary (Model/BlockReduce.v): [labels] is the block label of every
    point (observed from verde.block_split), [ukeys labels] the distinct
    labels in ascending order (np.unique), [combine labels col] the rows
    (label, value) of a column, [select k rows] the values of the rows
    labelled [k] in input order, [groupby] the model of pandas' groupby,
    [block_reduce red wred ...] the model of BlockReduce.filter for an
    arbitrary reduction [red] (and weighted reduction [wred]); [None] is
    ValueError. *)
From Coq Require Import ZArith QArith List Bool Permutation Sorting.Sorted.
From Verde Require Import Lib.Dyadic Lib.QList Model.BlockReduce Proofs.BlockReduceProofs.
Import ListNotations.

(** *** exactly one entry per block that contains data, in ascending block order *)

(** the model of groupby returns, for each distinct label in ascending order,
    the rows carrying it in input order - and nothing else *)
Theorem C09_groupby_spec : forall (A : Type) (rows : list (Z * A)),
  groupby rows = map (fun k => (k, select k rows)) (ukeys (map fst rows)).
Proof. exact @groupby_spec. Qed.
Print Assumptions C09_groupby_spec.

(** strictly ascending keys: no block appears twice *)
Theorem C09_keys_ascending : forall labels, StronglySorted Z.lt (ukeys labels).
Proof. exact ukeys_sorted. Qed.
Print Assumptions C09_keys_ascending.

Theorem C09_keys_distinct : forall labels, NoDup (ukeys labels).
Proof. exact ukeys_NoDup. Qed.
Print Assumptions C09_keys_distinct.

(** a block has an entry iff some point lies in it: empty blocks never appear,
    blocks with data are never lost *)
Theorem C09_keys_nonempty_blocks : forall labels k, In k (ukeys labels) <-> In k labels.
Proof. exact ukeys_In. Qed.
Print Assumptions C09_keys_nonempty_blocks.

Theorem C09_group_entries : forall (A : Type) (rows : list (Z * A)) k g,
  In (k, g) (groupby rows) -> g = select k rows /\ g <> [] /\ In k (map fst rows).
Proof. exact @groupby_members. Qed.
Print Assumptions C09_group_entries.

(** no row is lost, duplicated or moved to another column *)
Theorem C09_partition : forall (A : Type) (rows : list (Z * A)),
  Permutation (concat (map snd (groupby rows))) (map snd rows).
Proof. exact @groupby_partition. Qed.
Print Assumptions C09_partition.

(** *** precisely the values of the points in that block *)
Theorem C09_members : forall (A : Type) k labels (col : list A) x,
  In x (select k (combine labels col)) <->
  exists i, nth_error labels i = Some k /\ nth_error col i = Some x.
Proof. exact @select_members. Qed.
Print Assumptions C09_members.

(** each value paired with its own weight: the (value, weight) rows of a
    block are the block's values zipped with the block's weights *)
Theorem C09_pairing : forall (A B : Type) k labels (col : list A) (w : list B),
  length col = length labels -> length w = length labels ->
  select k (combine labels (combine col w)) =
  combine (select k (combine labels col)) (select k (combine labels w)).
Proof. exact @select_combine. Qed.
Print Assumptions C09_pairing.

(** *** the whole function *)

(** the output of the model for any reduction: data component [c] is reduced
    with weight component [c]; coordinates are reduced with the same
    (unweighted) reduction - all of them unless drop_coords - or, with
    center_coordinates, the first two are the centres of the blocks with
    the very labels of the data entries *)
Theorem C09_filter : forall (red : list Q -> Q) (wred : list Q -> list Q -> Q)
    labels coords data weights centres center drop out,
  block_reduce red wred labels coords data weights centres center drop = Some out ->
  out =
  (let cs := if drop then firstn 2 coords else coords in
   let reduced := map (fun col => map (fun k => red (select k (combine labels col))) (ukeys labels)) cs in
   if center
   then map (fun k => nth (Z.to_nat k) (fst centres) 0) (ukeys labels)
        :: map (fun k => nth (Z.to_nat k) (snd centres) 0) (ukeys labels)
        :: skipn 2 reduced
   else reduced,
   match weights with
   | None => map (fun col => map (fun k => red (select k (combine labels col))) (ukeys labels)) data
   | Some ws =>
       map2 (fun col w => map (fun k => wred (select k (combine labels col)) (select k (combine labels w)))
                              (ukeys labels)) data ws
   end).
Proof. exact block_reduce_spec. Qed.
Print Assumptions C09_filter.

(** inputs are accepted exactly when every array has one element per point and
    there is one weight array per data component *)
Theorem C09_accepts_iff : forall red wred labels coords data weights centres center drop,
  br_valid labels coords data weights = true <->
  exists out, block_reduce red wred labels coords data weights centres center drop = Some out.
Proof. exact block_reduce_some. Qed.
Print Assumptions C09_accepts_iff.

(** per-entry reading: entry [i] of a reduced column, of a weighted column and
    of a centre column all belong to the i-th smallest distinct label *)
Theorem C09_entry_value : forall (red : list Q -> Q) labels col i k,
  nth_error (ukeys labels) i = Some k ->
  nth_error (spec_col red labels col) i = Some (red (select k (combine labels col))).
Proof. exact spec_col_nth. Qed.
Print Assumptions C09_entry_value.

Theorem C09_entry_weighted : forall (wred : list Q -> list Q -> Q) labels col w i k,
  nth_error (ukeys labels) i = Some k ->
  nth_error (spec_wcol wred labels col w) i =
  Some (wred (select k (combine labels col)) (select k (combine labels w))).
Proof. exact spec_wcol_nth. Qed.
Print Assumptions C09_entry_weighted.

Theorem C09_entry_centre : forall centres labels i k,
  nth_error (ukeys labels) i = Some k ->
  nth_error (centre_col centres labels) i = Some (nth (Z.to_nat k) centres 0).
Proof. exact centre_col_nth. Qed.
Print Assumptions C09_entry_centre.

Theorem C09_entry_count : forall (red : list Q -> Q) labels col,
  length (spec_col red labels col) = length (ukeys labels).
Proof. exact spec_col_length. Qed.
Print Assumptions C09_entry_count.

(** *** a sum reduction conserves the total (in exact arithmetic) *)
Theorem C09_sum_conserved : forall (red : list Q -> Q) labels col,
  (forall l, red l == Qsum l) ->
  length col = length labels ->
  Qsum (reduce_col red labels col) == Qsum col.
Proof. exact sum_conserved. Qed.
Print Assumptions C09_sum_conserved.

Theorem C09_filter_sum_conserved : forall (red : list Q -> Q) wred labels coords data centres center drop oc od,
  (forall l, red l == Qsum l) ->
  block_reduce red wred labels coords data None centres center drop = Some (oc, od) ->
  Forall2 (fun col out => Qsum out == Qsum col) data od.
Proof. exact block_reduce_sum_conserved. Qed.
Print Assumptions C09_filter_sum_conserved.

(** the executable sum used by the correspondence check is such a reduction *)
Theorem C09_qsum_is_sum : forall l, qsum l == Qsum l.
Proof. exact qsum_Qsum. Qed.
Print Assumptions C09_qsum_is_sum.

(** *** non-vacuity: five points in blocks 3,1,3,0,1 (block 2 is empty), two
    data components with their own weights, an extra coordinate *)
Example C09_nv_unweighted :
  block_reduce qmedian qavg [3; 1; 3; 0; 1]%Z
    [[1; 2; 3; 4; 5]; [5; 4; 3; 2; 1]; [10; 20; 30; 40; 50]] [[7; 1; 9; 4; 3]] None
    ([100; 101; 102; 103], [200; 201; 202; 203]) true false
  = Some ([[100; 101; 103]; [200; 201; 203]; [40; 35; 20]], [[4; 2; 8]]).
Proof. vm_compute. reflexivity. Qed.

Example C09_nv_weighted :
  block_reduce qmean qavg [3; 1; 3; 0; 1]%Z
    [[1; 2; 3; 4; 5]; [5; 4; 3; 2; 1]] [[7; 1; 9; 4; 3]; [1; 2; 3; 4; 5]]
    (Some [[1; 1; 3; 2; 3]; [3; 1; 1; 5; 0]])
    ([100; 101; 102; 103], [200; 201; 202; 203]) false true
  = Some ([[4; 7 # 2; 2]; [2; 5 # 2; 4]], [[4; 5 # 2; 17 # 2]; [4; 2; 3 # 2]]).
Proof. vm_compute. reflexivity. Qed.

Example C09_nv_sum :
  Qsum (reduce_col qsum [3; 1; 3; 0; 1]%Z [7; 1; 9; 4; 3]) == Qsum [7; 1; 9; 4; 3] /\
  reduce_col qsum [3; 1; 3; 0; 1]%Z [7; 1; 9; 4; 3] = [4; 4; 16].
Proof. split; vm_compute; reflexivity. Qed.

Example C09_nv_rejected :
  block_reduce qmean qavg [3; 1; 3]%Z [[1; 2; 3]; [5; 4; 3]] [[7; 1]] None ([], []) false true = None.
Proof. reflexivity. Qed.
