(** C08  block_split assigns every point to the one block that contains it.
    Statements only; proofs in Proofs/BlocksProofs.v.

    Model (Model/Blocks.v): centres = raveled pixel-registered grid_coordinates of
    the region (given, or get_region of the points); label = nearest-centre query.
    [is_nearest cs p k]: k is an index attaining the minimum squared Euclidean
    distance from p over the centres cs - ANY answer a k-d tree query may give.
    [block_geom] is the closed-form geometry (W, dx, nc, S, dy, nr):
    shape (nr, nc): dx = (E - W) / nc; spacing: nc = max 1 (round ((E - W) / spacing)),
    dx = (E - W) / nc for adjust = "spacing" (0), dx = spacing for adjust = "region" (1). *)
From Coq Require Import QArith Qround Qabs ZArith List Bool Lia.
From Verde Require Import Lib.QExtra Model.Coordinates Model.CoordCases Model.Blocks
  Model.BlocksHuge Proofs.CoordinatesProofs Proofs.RegionProofs Proofs.BlocksProofs Proofs.BlocksHugeProofs.
Import ListNotations.
Open Scope Q_scope.

(** the region divided into blocks is the one given, else the bounding region of the points *)
Theorem C08_effective_region : forall east north region r,
  effective_region east north region = Some r ->
  match region with
  | Some r' => r = r'
  | None => exists w e s n, r = [w; e; s; n] /\ get_region east north = Some (w, e, s, n)
  end.
Proof. exact effective_region_spec. Qed.
Print Assumptions C08_effective_region.

(** centres_layout, labels_valid, labels_order: the centres returned are the nr * nc
    block centres numbered row-major from the south-west corner,
      centre k = (W + (k mod nc + 1/2) dx, S + (k / nc + 1/2) dy),
    and there is exactly one label per point, in the raveled order of the input, each
    being the nearest-centre query of that point *)
Theorem C08_block_split_spec : forall east north spacing adjust region shape b w e s n,
  block_split east north spacing adjust region shape = Some b ->
  effective_region east north region = Some [w; e; s; n] ->
  w < e -> s < n -> spacing_pos spacing -> shape_pos shape ->
  exists G, block_geom [w; e; s; n] shape spacing adjust = Some G /\
    g_w G = w /\ g_s G = s /\
    layout G (combine (b_east b) (b_north b)) /\
    length (b_east b) = (g_nr G * g_nc G)%nat /\ length (b_north b) = (g_nr G * g_nc G)%nat /\
    (forall k, (k < g_nr G * g_nc G)%nat ->
       nth k (b_east b) 0 == g_w G + (inject_Z (Z.of_nat (k mod g_nc G)) + (1 # 2)) * g_dx G /\
       nth k (b_north b) 0 == g_s G + (inject_Z (Z.of_nat (k / g_nc G)) + (1 # 2)) * g_dy G) /\
    length east = length north /\
    length (b_labels b) = length east /\
    forall i, (i < length east)%nat ->
      nth i (b_labels b) 0%nat = nearest (combine (b_east b) (b_north b)) (nth i east 0, nth i north 0).
Proof. exact block_split_spec. Qed.
Print Assumptions C08_block_split_spec.

(** the blocks tile the region exactly for a shape and for adjust = "spacing";
    for adjust = "region" the block size is exactly the spacing *)
Theorem C08_blocks_tile : forall start stop size spacing adjust h k,
  start < stop -> (forall sp, spacing = Some sp -> 0 < sp) -> (forall z, size = Some z -> (1 <= z)%Z) ->
  axis_geom start stop size spacing adjust = Some (h, k) ->
  match size, spacing with
  | Some z, _ => k = Z.to_nat z /\ inject_Z (Z.of_nat k) * h == stop - start
  | None, Some sp =>
      k = Z.to_nat (Z.max 1 (rhe ((stop - start) / sp))) /\
      (adjust = 0%Z -> inject_Z (Z.of_nat k) * h == stop - start) /\
      (adjust = 1%Z -> h = sp)
  | None, None => False
  end.
Proof. exact axis_geom_tiles. Qed.
Print Assumptions C08_blocks_tile.

(** the model's query result attains the minimum distance (and is the first index to do so) *)
Theorem C08_nearest_is_nearest : forall cs p, cs <> [] -> is_nearest cs p (nearest cs p).
Proof. exact nearest_is_nearest. Qed.
Print Assumptions C08_nearest_is_nearest.

(** label_interior: a point strictly inside block (r, c) gets the label r * nc + c *)
Theorem C08_label_interior : forall east north spacing adjust region shape b w e s n,
  block_split east north spacing adjust region shape = Some b ->
  effective_region east north region = Some [w; e; s; n] ->
  w < e -> s < n -> spacing_pos spacing -> shape_pos shape ->
  forall G i r c,
  block_geom [w; e; s; n] shape spacing adjust = Some G ->
  (i < length east)%nat -> (c < g_nc G)%nat -> (r < g_nr G)%nat ->
  w + inject_Z (Z.of_nat c) * g_dx G < nth i east 0 ->
  nth i east 0 < w + (inject_Z (Z.of_nat c) + 1) * g_dx G ->
  s + inject_Z (Z.of_nat r) * g_dy G < nth i north 0 ->
  nth i north 0 < s + (inject_Z (Z.of_nat r) + 1) * g_dy G ->
  nth i (b_labels b) 0%nat = (r * g_nc G + c)%nat.
Proof. exact block_split_label_interior. Qed.
Print Assumptions C08_label_interior.

(** the same for ANY valid answer of the nearest-neighbour query (any tie-breaking) *)
Theorem C08_any_nearest_interior : forall G cs, layout G cs -> forall p k r c,
  is_nearest cs p k -> (c < g_nc G)%nat -> (r < g_nr G)%nat ->
  g_w G + inject_Z (Z.of_nat c) * g_dx G < fst p -> fst p < g_w G + (inject_Z (Z.of_nat c) + 1) * g_dx G ->
  g_s G + inject_Z (Z.of_nat r) * g_dy G < snd p -> snd p < g_s G + (inject_Z (Z.of_nat r) + 1) * g_dy G ->
  k = (r * g_nc G + c)%nat.
Proof. exact label_interior. Qed.
Print Assumptions C08_any_nearest_interior.

(** label_edge_adjacent: a point exactly on the edge shared by two columns (rows) gets one of the two *)
Theorem C08_label_edge : forall east north spacing adjust region shape b w e s n,
  block_split east north spacing adjust region shape = Some b ->
  effective_region east north region = Some [w; e; s; n] ->
  w < e -> s < n -> spacing_pos spacing -> shape_pos shape ->
  forall G i,
  block_geom [w; e; s; n] shape spacing adjust = Some G -> (i < length east)%nat ->
  let l := nth i (b_labels b) 0%nat in
  (forall c, (1 <= c < g_nc G)%nat -> nth i east 0 == w + inject_Z (Z.of_nat c) * g_dx G ->
     (l mod g_nc G = c \/ l mod g_nc G = c - 1)%nat) /\
  (forall r, (1 <= r < g_nr G)%nat -> nth i north 0 == s + inject_Z (Z.of_nat r) * g_dy G ->
     (l / g_nc G = r \/ l / g_nc G = r - 1)%nat).
Proof. exact block_split_label_edge. Qed.
Print Assumptions C08_label_edge.

(** label_outside_clamped: points outside the blocks go to the nearest border block
    (first / last column, first / last row) *)
Theorem C08_label_outside : forall east north spacing adjust region shape b w e s n,
  block_split east north spacing adjust region shape = Some b ->
  effective_region east north region = Some [w; e; s; n] ->
  w < e -> s < n -> spacing_pos spacing -> shape_pos shape ->
  forall G i,
  block_geom [w; e; s; n] shape spacing adjust = Some G -> (i < length east)%nat ->
  let l := nth i (b_labels b) 0%nat in
  (nth i east 0 <= w -> (l mod g_nc G = 0)%nat) /\
  (w + inject_Z (Z.of_nat (g_nc G)) * g_dx G <= nth i east 0 -> (l mod g_nc G = g_nc G - 1)%nat) /\
  (nth i north 0 <= s -> (l / g_nc G = 0)%nat) /\
  (s + inject_Z (Z.of_nat (g_nr G)) * g_dy G <= nth i north 0 -> (l / g_nc G = g_nr G - 1)%nat).
Proof. exact block_split_label_outside. Qed.
Print Assumptions C08_label_outside.

(** general form: any nearest centre's column is the clamped column of the point or, only
    for a point exactly on a shared edge, its western neighbour (rows alike) *)
Theorem C08_nearest_block : forall G cs, layout G cs -> forall p k, is_nearest cs p k ->
  let c := cell_of (g_w G) (g_dx G) (g_nc G) (fst p) in
  let r := cell_of (g_s G) (g_dy G) (g_nr G) (snd p) in
  (k < g_nr G * g_nc G)%nat /\
  ((k mod g_nc G)%nat = c \/ (S (k mod g_nc G) = c /\ fst p == g_w G + inject_Z (Z.of_nat c) * g_dx G)) /\
  ((k / g_nc G)%nat = r \/ (S (k / g_nc G) = r /\ snd p == g_s G + inject_Z (Z.of_nat r) * g_dy G)).
Proof. exact nearest_block. Qed.
Print Assumptions C08_nearest_block.

(** the decidable statement the check evaluates on verde's output ([block_holds]: centres in
    the closed-form layout; every label valid and its closed block - border blocks extended
    outwards, allowance t - containing the point) is true of the model for all inputs *)
Theorem C08_model_satisfies_statement : forall east north spacing adjust region shape b w e s n sc t,
  block_split east north spacing adjust region shape = Some b ->
  effective_region east north region = Some [w; e; s; n] ->
  w < e -> s < n -> spacing_pos spacing -> shape_pos shape -> 0 <= sc -> 0 <= t ->
  exists G, block_geom [w; e; s; n] shape spacing adjust = Some G /\
    block_holds sc t G (combine east north) (b_east b) (b_north b) (b_labels b) = true.
Proof. exact block_split_holds. Qed.
Print Assumptions C08_model_satisfies_statement.

(** for block grids too large for the brute-force model the check evaluates the statement
    in its integer form, which is the same statement *)
Theorem C08_statement_integer_form : forall G t p k, label_okZ G t p (Z.of_nat k) = label_ok G t p k.
Proof. exact label_okZ_eq. Qed.
Print Assumptions C08_statement_integer_form.

(** non-vacuity: 2 x 4 blocks of size 1 over [0, 4] x [0, 2]; interior points, a point on
    a corner shared by four blocks, points outside *)
Example C08_example :
  let east := [1 # 2; 5 # 2; 1; -3; 7; 7 # 2] in
  let north := [1 # 2; 3 # 2; 1; -1; 9; 1 # 4] in
  effective_region east north (Some [0; 4; 0; 2]) = Some [0; 4; 0; 2] /\
  spacing_pos (Some [1]) /\ shape_pos None /\
  exists b, block_split east north (Some [1]) 0 (Some [0; 4; 0; 2]) None = Some b /\
    b_labels b = [0; 6; 0; 0; 7; 3]%nat /\ length (b_east b) = 8%nat /\
    block_geom [0; 4; 0; 2] None (Some [1]) 0 =
      Some {| g_w := 0; g_dx := 4 / inject_Z 4; g_nc := 4; g_s := 0; g_dy := 2 / inject_Z 2; g_nr := 2 |}.
Proof.
  cbv zeta. split; [reflexivity|]. split.
  - intros sp H. injection H as <-. repeat constructor.
  - split; [intros ? ? H; discriminate|].
    eexists. split; [vm_compute; reflexivity|]. split; [reflexivity|]. split; reflexivity.
Qed.

(** region inferred from the points, shape (2, 3) *)
Example C08_example_inferred :
  let east := [0; 3; 1; 2] in let north := [0; 2; 1 # 2; 3 # 2] in
  effective_region east north None = Some [0; 3; 0; 2] /\
  exists b, block_split east north None 0 None (Some (2, 3)%Z) = Some b /\ b_labels b = [0; 5; 0; 4]%nat.
Proof.
  cbv zeta. split; [reflexivity|]. eexists. split; [vm_compute; reflexivity|reflexivity].
Qed.
