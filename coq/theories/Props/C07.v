(** C07  Regular coordinates honour region, spacing, shape and registration.
    Statements only; proofs in Proofs/CoordinatesProofs.v, CoordSpecProofs.v.
    Numbers are rationals (exact-arithmetic reading of the float code);
    adjust: 0 = "spacing", 1 = "region". *)
From Coq Require Import QArith Qround Qabs ZArith List Bool Lia.
From Verde Require Import Lib.QExtra Model.Coordinates Model.CoordCases
  Proofs.CoordinatesProofs Proofs.CoordSpecProofs.
Import ListNotations.
Open Scope Q_scope.

(** Python's round: nearest integer, ties to the even neighbour *)
Theorem C07_round_nearest : forall x, Qabs (x - inject_Z (rhe x)) <= 1#2.
Proof. exact rhe_near. Qed.
Print Assumptions C07_round_nearest.
Theorem C07_round_tie_even : forall x, x - inject_Z (Qfloor x) == 1#2 -> Z.even (rhe x) = true.
Proof. exact rhe_tie_even. Qed.
Print Assumptions C07_round_tie_even.

(** the number of intervals is the integer nearest to extent/spacing, at least one;
    adjust='region' moves only the far bound, to that whole number of spacings *)
Theorem C07_intervals : forall start stop sp adj n stop',
  start <= stop -> 0 < sp ->
  spacing_to_size start stop sp adj = Some (n, stop') ->
  (n - 1 = Z.max 1 (rhe ((stop - start) / sp)))%Z /\
  (adj = 0%Z -> stop' = stop) /\
  (adj = 1%Z -> stop' = start + inject_Z (n - 1) * sp).
Proof. exact sts_spec. Qed.
Print Assumptions C07_intervals.

Theorem C07_intervals_nearest : forall start stop sp adj n stop',
  start <= stop -> 0 < sp -> 1#2 <= (stop - start) / sp ->
  spacing_to_size start stop sp adj = Some (n, stop') ->
  Qabs ((stop - start) / sp - inject_Z (n - 1)) <= 1#2.
Proof. exact sts_nearest. Qed.
Print Assumptions C07_intervals_nearest.

Theorem C07_invalid_adjust : forall start stop sp adj, adj <> 0%Z -> adj <> 1%Z ->
  spacing_to_size start stop sp adj = None.
Proof. exact sts_rejects. Qed.
Print Assumptions C07_invalid_adjust.

(** adjust='spacing': evenly spaced nodes, both bounds hit *)
Theorem C07_line_adjust_spacing : forall start stop sp v,
  start <= stop -> 0 < sp ->
  line_coordinates start stop None (Some sp) 0 false = Some v ->
  let k := Z.max 1 (rhe ((stop - start) / sp)) in
  length v = Z.to_nat (k + 1) /\
  nth 0 v 0 == start /\ nth (Z.to_nat k) v 0 == stop /\
  forall i, (i <= Z.to_nat k)%nat ->
    nth i v 0 == start + inject_Z (Z.of_nat i) * ((stop - start) / inject_Z k).
Proof. exact line_adjust_spacing. Qed.
Print Assumptions C07_line_adjust_spacing.

(** adjust='region': the step equals the requested spacing; the first node is start *)
Theorem C07_line_adjust_region : forall start stop sp v,
  start <= stop -> 0 < sp ->
  line_coordinates start stop None (Some sp) 1 false = Some v ->
  let k := Z.max 1 (rhe ((stop - start) / sp)) in
  length v = Z.to_nat (k + 1) /\
  forall i, (i <= Z.to_nat k)%nat -> nth i v 0 == start + inject_Z (Z.of_nat i) * sp.
Proof. exact line_adjust_region. Qed.
Print Assumptions C07_line_adjust_region.

Theorem C07_line_size : forall start stop n v, (2 <= n)%Z ->
  line_coordinates start stop (Some n) None 0 false = Some v ->
  length v = Z.to_nat n /\ nth 0 v 0 == start /\ nth (Z.to_nat n - 1) v 0 == stop /\
  forall i, (i < Z.to_nat n)%nat ->
    nth i v 0 == start + inject_Z (Z.of_nat i) * ((stop - start) / inject_Z (n - 1)).
Proof. exact line_size. Qed.
Print Assumptions C07_line_size.

(** pixel registration: midpoints of the intervals; one fewer node with a
    spacing, exactly the requested count with a size *)
Theorem C07_line_pixel_spacing : forall start stop sp adj p,
  start <= stop -> 0 < sp -> (adj = 0 \/ adj = 1)%Z ->
  line_coordinates start stop None (Some sp) adj true = Some p ->
  exists v, line_coordinates start stop None (Some sp) adj false = Some v /\
    length p = (length v - 1)%nat /\
    forall i, (i < length v - 1)%nat -> nth i p 0 == (nth i v 0 + nth (S i) v 0) / 2.
Proof. exact line_pixel_spacing. Qed.
Print Assumptions C07_line_pixel_spacing.

Theorem C07_line_pixel_size : forall start stop n p, (1 <= n)%Z ->
  line_coordinates start stop (Some n) None 0 true = Some p ->
  length p = Z.to_nat n /\
  forall i, (i < Z.to_nat n)%nat ->
    nth i p 0 == start + (inject_Z (Z.of_nat i) + (1#2)) * ((stop - start) / inject_Z n).
Proof. exact line_pixel_size. Qed.
Print Assumptions C07_line_pixel_size.

Theorem C07_line_rejects : forall start stop adj pix,
  (forall n sp, line_coordinates start stop (Some n) (Some sp) adj pix = None) /\
  line_coordinates start stop None None adj pix = None.
Proof. exact line_rejects. Qed.
Print Assumptions C07_line_rejects.

(** the closed form evaluated by the case files on the implementation's output
    is met by the model for every input *)
Theorem C07_model_meets_closed_form : forall start stop size spacing adjust pixel,
  start <= stop ->
  (forall sp, spacing = Some sp -> 0 < sp) ->
  (forall n, size = Some n -> (1 <= n)%Z) ->
  same_result (line_coordinates start stop size spacing adjust pixel)
              (line_spec start stop size spacing adjust pixel).
Proof. exact line_spec_correct. Qed.
Print Assumptions C07_model_meets_closed_form.

(** grids: shape (n_north, n_east), easting along columns, northing along rows,
    constant extra coordinates *)
Theorem C07_grid_shape_orientation : forall region shape spacing adj pix extra mesh g,
  grid_coordinates region shape spacing adj pix extra mesh = Some g ->
  let ne := length (g_east1 g) in let nn := length (g_north1 g) in
  length (g_east2 g) = nn /\ length (g_north2 g) = nn /\
  (forall i, (i < nn)%nat -> nth i (g_east2 g) [] = g_east1 g) /\
  (forall i, (i < nn)%nat -> length (nth i (g_north2 g) []) = ne) /\
  (forall i j, (i < nn)%nat -> (j < ne)%nat ->
     nth j (nth i (g_east2 g) []) 0 = nth j (g_east1 g) 0 /\
     nth j (nth i (g_north2 g) []) 0 = nth i (g_north1 g) 0) /\
  (forall x, In x (g_extra g) -> length x = nn /\
     forall row, In row x -> length row = ne /\ exists c, forall y, In y row -> y = c).
Proof. exact grid_shape_orientation. Qed.
Print Assumptions C07_grid_shape_orientation.

(** east from region[0:2] / shape[1] / spacing[1]; north from region[2:4] / shape[0] / spacing[0] *)
Theorem C07_grid_lines_shape : forall w e s n sn se adj pix extra mesh g,
  grid_coordinates [w; e; s; n] (Some (sn, se)) None adj pix extra mesh = Some g ->
  line_coordinates w e (Some se) None adj pix = Some (g_east1 g) /\
  line_coordinates s n (Some sn) None adj pix = Some (g_north1 g).
Proof. exact grid_lines_shape. Qed.
Print Assumptions C07_grid_lines_shape.

Theorem C07_grid_lines_spacing : forall w e s n spn spe adj pix extra mesh g,
  grid_coordinates [w; e; s; n] None (Some [spn; spe]) adj pix extra mesh = Some g ->
  line_coordinates w e None (Some spe) adj pix = Some (g_east1 g) /\
  line_coordinates s n None (Some spn) adj pix = Some (g_north1 g).
Proof. exact grid_lines_spacing. Qed.
Print Assumptions C07_grid_lines_spacing.

Theorem C07_grid_scalar_spacing : forall region sp adj pix extra mesh,
  grid_coordinates region None (Some [sp]) adj pix extra mesh =
  grid_coordinates region None (Some [sp; sp]) adj pix extra mesh.
Proof. exact grid_scalar_spacing. Qed.
Print Assumptions C07_grid_scalar_spacing.

Theorem C07_grid_args_rejected : forall region shape (sh : Z * Z) (sp : list Q) sps adj pix extra mesh (x : list Q),
  (check_region region = false -> grid_coordinates region shape sps adj pix extra mesh = None) /\
  grid_coordinates region (Some sh) (Some sp) adj pix extra mesh = None /\
  grid_coordinates region None None adj pix extra mesh = None /\
  (forall a b c l, grid_coordinates region None (Some (a :: b :: c :: l)) adj pix extra mesh = None) /\
  grid_coordinates region None (Some []) adj pix extra mesh = None /\
  grid_coordinates region shape sps adj pix (Some x) false = None.
Proof. exact grid_args_rejected. Qed.
Print Assumptions C07_grid_args_rejected.

(** shape_to_spacing inverts the shape *)
Theorem C07_shape_to_spacing_inverts : forall w e s n sn se adj g,
  w < e -> s < n -> (2 <= sn)%Z -> (2 <= se)%Z -> (adj = 0 \/ adj = 1)%Z ->
  let '(spn, spe) := shape_to_spacing (w, e, s, n) (sn, se) false in
  grid_coordinates [w; e; s; n] None (Some [spn; spe]) adj false None true = Some g ->
  length (g_north1 g) = Z.to_nat sn /\ length (g_east1 g) = Z.to_nat se.
Proof. exact shape_to_spacing_inverts. Qed.
Print Assumptions C07_shape_to_spacing_inverts.

Theorem C07_shape_to_spacing_inverts_pixel : forall w e s n sn se adj g,
  w < e -> s < n -> (1 <= sn)%Z -> (1 <= se)%Z -> (adj = 0 \/ adj = 1)%Z ->
  let '(spn, spe) := shape_to_spacing (w, e, s, n) (sn, se) true in
  grid_coordinates [w; e; s; n] None (Some [spn; spe]) adj true None true = Some g ->
  length (g_north1 g) = Z.to_nat sn /\ length (g_east1 g) = Z.to_nat se.
Proof. exact shape_to_spacing_inverts_pixel. Qed.
Print Assumptions C07_shape_to_spacing_inverts_pixel.

(** profiles: evenly spaced on the segment, distances measured from the first point *)
Theorem C07_profile_even : forall x1 y1 x2 y2 size, (2 <= size)%nat ->
  let pts := profile_points x1 y1 x2 y2 size in
  let d2 := profile_dist2 x1 y1 x2 y2 size in
  length pts = size /\ length d2 = size /\
  (fst (nth 0 pts (0, 0)) == x1 /\ snd (nth 0 pts (0, 0)) == y1) /\
  (fst (nth (size - 1) pts (0, 0)) == x2 /\ snd (nth (size - 1) pts (0, 0)) == y2) /\
  nth 0 d2 0 == 0 /\
  forall i, (i < size)%nat ->
    let t := inject_Z (Z.of_nat i) / inject_Z (Z.of_nat (size - 1)) in
    fst (nth i pts (0, 0)) == x1 + t * (x2 - x1) /\
    snd (nth i pts (0, 0)) == y1 + t * (y2 - y1) /\
    nth i d2 0 == t * t * ((x2 - x1) * (x2 - x1) + (y2 - y1) * (y2 - y1)).
Proof. exact profile_even. Qed.
Print Assumptions C07_profile_even.

(** non-vacuity: docstring examples *)
Example C07_nv_spacing : line_coordinates 0 5 None (Some (5#2)) 0 false = Some [0 + 0 * (5 / 2); 0 + 1 * (5 / 2); 0 + 2 * (5 / 2)]%Q
  /\ spacing_to_size (-5) 0 (26#10) 1 = Some (3%Z, -5 + 2 * (26#10)).
Proof. split; reflexivity. Qed.
Example C07_nv_tie : fst (match spacing_to_size 0 5 2 0 with Some p => p | None => (0%Z, 0) end) = 3%Z.
Proof. reflexivity. Qed.
Example C07_nv_pixel : option_map (@length Q) (line_coordinates 0 4 (Some 4%Z) None 0 true) = Some 4%nat.
Proof. reflexivity. Qed.
