(** C14  Rolling and expanding windows select exactly the points inside each window.
    Statements only; proofs in Proofs/WindowsProofs.v.

    Model (Model/Windows.v): [ball_inf pts c r] = ascending positions of the points within
    r of c in both directions (specification of cKDTree.query_ball_point(p=inf));
    [unravel_index shape idx] = numpy.unravel_index (C order): one index array per dimension;
    window centres = [grid_coordinates] (unchanged coordinate model) of the region shrunk by
    size/2 on every side.  Coordinates are given raveled together with their shape. *)
From Coq Require Import QArith Qround Qabs ZArith List Bool Lia Sorted.
From Verde Require Import Lib.QExtra Model.Coordinates Model.CoordCases Model.Blocks Model.Windows
  Proofs.CoordinatesProofs Proofs.RegionProofs Proofs.BlocksProofs Proofs.WindowsProofs.
Import ListNotations.
Open Scope Q_scope.

(** window_membership: position i is returned iff point i lies in the closed square of
    half-width r around the centre; positions ascending, hence none twice *)
Theorem C14_window_membership : forall pts c r,
  StronglySorted lt (ball_inf pts c r) /\
  forall i, In i (ball_inf pts c r) <->
    (i < length pts)%nat /\
    Qabs (fst (nth i pts (0, 0)) - fst c) <= r /\ Qabs (snd (nth i pts (0, 0)) - snd c) <= r.
Proof. exact window_membership. Qed.
Print Assumptions C14_window_membership.

(** empty windows give empty index arrays (one per dimension of the input) *)
Theorem C14_empty_window : forall pts c r,
  (forall i, (i < length pts)%nat ->
     ~ (Qabs (fst (nth i pts (0, 0)) - fst c) <= r /\ Qabs (snd (nth i pts (0, 0)) - snd c) <= r)) ->
  ball_inf pts c r = [].
Proof. exact empty_window. Qed.
Print Assumptions C14_empty_window.

Theorem C14_unravel_index_empty : forall shape,
  length (unravel_index shape []) = length shape /\ forall a, In a (unravel_index shape []) -> a = [].
Proof. exact unravel_index_empty. Qed.
Print Assumptions C14_unravel_index_empty.

(** unravel_correct: a position below the number of elements unravels to a valid
    multi-index of the input's shape which ravels back to the position; and conversely *)
Theorem C14_unravel_correct : forall shape i, (i < prod shape)%nat ->
  length (unravel shape i) = length shape /\
  Forall2 lt (unravel shape i) shape /\
  ravel shape (unravel shape i) = i.
Proof. exact unravel_correct. Qed.
Print Assumptions C14_unravel_correct.

Theorem C14_ravel_unravel : forall shape m, Forall2 lt m shape ->
  (ravel shape m < prod shape)%nat /\ unravel shape (ravel shape m) = m.
Proof. exact ravel_unravel. Qed.
Print Assumptions C14_ravel_unravel.

(** the returned tuple directly indexes arrays of the input's shape: one index array per
    dimension, one entry per selected position, and indexing a C-ordered array (given by
    its raveled values) with the k-th multi-index yields the element at the k-th position *)
Theorem C14_unravel_index_selects : forall (A : Type) shape idx (flat : list A) d,
  Forall (fun i => (i < prod shape)%nat) idx ->
  length (unravel_index shape idx) = length shape /\
  (forall a, In a (unravel_index shape idx) -> length a = length idx) /\
  forall k, (k < length idx)%nat ->
    let m := map (fun a => nth k a O) (unravel_index shape idx) in
    Forall2 lt m shape /\ index_nd shape flat m d = nth (nth k idx O) flat d.
Proof. exact @unravel_index_selects. Qed.
Print Assumptions C14_unravel_index_selects.

(** 1-D inputs give 1-tuples holding the positions themselves *)
Theorem C14_unravel_index_1d : forall n idx, unravel_index [n] idx = [idx].
Proof. exact unravel_index_1d. Qed.
Print Assumptions C14_unravel_index_1d.

(** the read-back the check applies to observed tuples inverts unravel_index *)
Theorem C14_tuple_positions_unravel : forall shape idx, shape <> [] ->
  Forall (fun i => (i < prod shape)%nat) idx ->
  tuple_positions shape (unravel_index shape idx) = Some idx.
Proof. exact tuple_positions_unravel. Qed.
Print Assumptions C14_tuple_positions_unravel.

(** rolling_centres + membership: the window centres are the grid of the shrunk region, the
    index array has the centres' shape (n_north rows of n_east windows), and the entry of
    window (i, j) is the unravelled list of exactly the positions of the points within
    size/2 of centre (east_j, north_i) in both directions *)
Theorem C14_rolling_window_spec : forall east north dshape size spacing shape region adjust R,
  rolling_window east north dshape size spacing shape region adjust = Some R ->
  exists w e s n g,
    effective_region east north region = Some [w; e; s; n] /\
    size <= e - w /\ size <= n - s /\ length east = length north /\
    grid_coordinates [w + size / 2; e - size / 2; s + size / 2; n - size / 2]
                     shape spacing adjust false None true = Some g /\
    let ne := length (g_east1 g) in let nn := length (g_north1 g) in
    length (r_east R) = nn /\ length (r_north R) = nn /\ length (r_index R) = nn /\
    forall i, (i < nn)%nat ->
      length (nth i (r_east R) []) = ne /\ length (nth i (r_north R) []) = ne /\
      length (nth i (r_index R) []) = ne /\
      forall j, (j < ne)%nat ->
        nth j (nth i (r_east R) []) 0 == nth j (g_east1 g) 0 /\
        nth j (nth i (r_north R) []) 0 == nth i (g_north1 g) 0 /\
        exists idx,
          nth j (nth i (r_index R) []) [] = unravel_index dshape idx /\
          StronglySorted lt idx /\
          forall k, In k idx <->
            (k < length east)%nat /\
            Qabs (nth k east 0 - nth j (g_east1 g) 0) <= size / 2 /\
            Qabs (nth k north 0 - nth i (g_north1 g) 0) <= size / 2.
Proof. exact rolling_window_spec. Qed.
Print Assumptions C14_rolling_window_spec.

(** neither shape nor spacing, or a window larger than a side of the region: refused *)
Theorem C14_rolling_window_rejects : forall east north dshape size shape spacing region adjust w e s n,
  rolling_window east north dshape size None None region adjust = None /\
  (effective_region east north region = Some [w; e; s; n] -> (e - w < size \/ n - s < size) ->
   rolling_window east north dshape size spacing shape region adjust = None).
Proof. exact rolling_window_rejects. Qed.
Print Assumptions C14_rolling_window_rejects.

(** windows_inside_region: with a shape, or a spacing adjusted to the region, every window
    [centre - size/2, centre + size/2] lies inside the region *)
Theorem C14_windows_inside_region : forall w e s n size shape spacing adjust g,
  spacing_pos spacing -> ((exists sh, shape = Some sh) \/ adjust = 0%Z) ->
  grid_coordinates [w + size / 2; e - size / 2; s + size / 2; n - size / 2]
                   shape spacing adjust false None true = Some g ->
  (forall cx, In cx (g_east1 g) -> w <= cx - size / 2 /\ cx + size / 2 <= e) /\
  (forall cy, In cy (g_north1 g) -> s <= cy - size / 2 /\ cy + size / 2 <= n).
Proof. exact windows_inside_region. Qed.
Print Assumptions C14_windows_inside_region.

(** rolling_cover: (shape with at least two windows per direction, or spacing adjusted to the
    region) if consecutive centres are no farther apart than the window size in both
    directions, every point of the region lies in at least one closed window *)
Theorem C14_rolling_cover : forall w e s n size shape spacing adjust g,
  0 <= size -> size <= e - w -> size <= n - s ->
  spacing_pos spacing -> (forall sn se, shape = Some (sn, se) -> (2 <= sn)%Z /\ (2 <= se)%Z) ->
  ((exists sh, shape = Some sh) \/ adjust = 0%Z) ->
  grid_coordinates [w + size / 2; e - size / 2; s + size / 2; n - size / 2]
                   shape spacing adjust false None true = Some g ->
  (forall j, (S j < length (g_east1 g))%nat -> nth (S j) (g_east1 g) 0 - nth j (g_east1 g) 0 <= size) ->
  (forall i, (S i < length (g_north1 g))%nat -> nth (S i) (g_north1 g) 0 - nth i (g_north1 g) 0 <= size) ->
  forall x y, w <= x <= e -> s <= y <= n ->
  exists i j, (i < length (g_north1 g))%nat /\ (j < length (g_east1 g))%nat /\
    Qabs (x - nth j (g_east1 g) 0) <= size / 2 /\ Qabs (y - nth i (g_north1 g) 0) <= size / 2.
Proof. exact rolling_cover. Qed.
Print Assumptions C14_rolling_cover.

(** expanding windows: one result per size, in the order of the sizes given, each the
    unravelled list of exactly the positions within size/2 of the centre *)
Theorem C14_expanding_window_spec : forall east north dshape c sizes M,
  expanding_window east north dshape c sizes = Some M ->
  length east = length north /\ length M = length sizes /\
  forall j, (j < length sizes)%nat ->
    exists idx, nth j M [] = unravel_index dshape idx /\ StronglySorted lt idx /\
      forall k, In k idx <->
        (k < length east)%nat /\
        Qabs (nth k east 0 - fst c) <= nth j sizes 0 / 2 /\ Qabs (nth k north 0 - snd c) <= nth j sizes 0 / 2.
Proof. exact expanding_window_spec. Qed.
Print Assumptions C14_expanding_window_spec.

(** nested by size *)
Theorem C14_expanding_nested : forall east north c s1 s2 k, s1 <= s2 ->
  In k (ball_inf (combine east north) c (s1 / 2)) -> In k (ball_inf (combine east north) c (s2 / 2)).
Proof. exact expanding_nested. Qed.
Print Assumptions C14_expanding_nested.

(** non-vacuity: a 2 x 3 array of points, region [0, 4] x [0, 2], windows of size 2 every 2 *)
Example C14_example_rolling :
  let east := [0; 1; 2; 2; 3; 4] in let north := [0; 1; 2; 0; 1; 2] in
  exists R, rolling_window east north [2; 3]%nat 2 (Some [2]) None (Some [0; 4; 0; 2]) 0 = Some R /\
    length (r_index R) = 2%nat /\
    nth 0 (nth 0 (r_index R) []) [] = [[0; 0; 0; 1]; [0; 1; 2; 0]]%nat /\   (* (row, column) of the points in [0,2]x[0,2] *)
    nth 1 (nth 0 (r_index R) []) [] = [[0; 1; 1; 1]; [2; 0; 1; 2]]%nat.
Proof.
  cbv zeta. eexists. split; [vm_compute; reflexivity|]. repeat split.
Qed.

Example C14_example_expanding :
  let east := [0; 1; 2; 2; 3; 4] in let north := [0; 1; 2; 0; 1; 2] in
  expanding_window east north [6]%nat (2, 1) [4; 0; 2] = Some [[[0; 1; 2; 3; 4; 5]]; [[]]; [[1; 2; 3; 4]]]%nat /\
  expanding_window east north [2; 3]%nat (2, 1) [2] = Some [[[0; 0; 1; 1]; [1; 2; 0; 1]]]%nat.
Proof. split; vm_compute; reflexivity. Qed.

(** the covering hypotheses are satisfiable: region [0, 4] x [0, 2], size 2, spacing 2 *)
Example C14_example_cover :
  exists g, grid_coordinates [0 + 2 / 2; 4 - 2 / 2; 0 + 2 / 2; 2 - 2 / 2] None (Some [2]) 0 false None true = Some g /\
    (forall j, (S j < length (g_east1 g))%nat -> nth (S j) (g_east1 g) 0 - nth j (g_east1 g) 0 <= 2) /\
    (forall i, (S i < length (g_north1 g))%nat -> nth (S i) (g_north1 g) 0 - nth i (g_north1 g) 0 <= 2).
Proof.
  eexists. split; [vm_compute; reflexivity|]. cbn [g_east1 g_north1 length]. split.
  - intros j Hj. assert (j = 0)%nat by lia. subst j. vm_compute. discriminate.
  - intros i Hi. assert (i = 0)%nat by lia. subst i. vm_compute. discriminate.
Qed.
