(** C10  BlockMean.filter returns block means and weights in (0,1] by the
    documented rule; variance_to_weights.  Statements only; proofs are in
    Proofs/WeightsProofs.v.

    Vocabulary (Model/Weights.v, Model/BlockReduce.v): a variance is an
    [option Q] with [None] for NaN; [v2w1 tol vs] is variance_to_weights on one
    component; [is_minpos tol vs m]: [m] is the least variance above [tol];
    [block_mean ddof tol labels coords data weights centres center drop
    uncertainty] is the model of BlockMean.filter ([None] = ValueError);
    [labels], [ukeys], [select], [combine] as for C09; [qmean], [qavg],
    [qvar ddof], [qwvar]: mean, weighted mean, variance, weighted variance in
    exact rationals. *)
From Coq Require Import ZArith QArith List Bool.
From Verde Require Import Lib.Dyadic Lib.QList Model.BlockReduce Model.Weights
  Proofs.BlockReduceProofs Proofs.WeightsProofs.
Import ListNotations.
Open Scope Q_scope.

(** *** variance_to_weights *)

(** several components are converted separately *)
Theorem C10_v2w_components : forall tol comps,
  variance_to_weights tol comps = map (v2w1 tol) comps.
Proof. exact variance_to_weights_components. Qed.
Print Assumptions C10_v2w_components.

(** shape is preserved *)
Theorem C10_v2w_shape : forall tol vs, length (v2w1 tol vs) = length vs.
Proof. exact v2w_shape. Qed.
Print Assumptions C10_v2w_shape.

(** every weight lies in (0, 1] *)
Theorem C10_v2w_range : forall tol vs, 0 <= tol ->
  Forall (fun w => 0 < w /\ w <= 1) (v2w1 tol vs).
Proof. exact v2w_range. Qed.
Print Assumptions C10_v2w_range.

(** at least one weight equals 1 *)
Theorem C10_v2w_has_one : forall tol vs, 0 <= tol -> vs <> [] ->
  exists w, In w (v2w1 tol vs) /\ w == 1.
Proof. exact v2w_has_one. Qed.
Print Assumptions C10_v2w_has_one.

(** above the tolerance: min-positive-variance / variance *)
Theorem C10_v2w_formula : forall tol vs i q, 0 <= tol ->
  nth_error vs i = Some (Some q) -> tol < q ->
  exists m w, nth_error (v2w1 tol vs) i = Some w /\ w == m / q /\ is_minpos tol vs m.
Proof. exact v2w_formula. Qed.
Print Assumptions C10_v2w_formula.

(** weight 1 for NaN and for variances at or below the tolerance *)
Theorem C10_v2w_small_and_nan : forall tol vs i o, 0 <= tol ->
  nth_error vs i = Some o ->
  match o with None => True | Some q => q <= tol end ->
  nth_error (v2w1 tol vs) i = Some 1.
Proof. exact v2w_small_and_nan. Qed.
Print Assumptions C10_v2w_small_and_nan.

(** *** BlockMean.filter *)

(** the whole function: per non-empty block, in ascending label order, the
    (weighted) mean of the block's members - component c with weight
    component c - and variance_to_weights of the block variances of that
    component, which are: the variance of the members (no weights), 1 / sum of
    the members' weights (uncertainty), the weighted variance (otherwise);
    coordinates as for BlockReduce with the mean *)
Theorem C10_filter : forall ddof tol labels coords data weights centres center drop uncertainty out,
  block_mean ddof tol labels coords data weights centres center drop uncertainty = Some out ->
  out =
  (let cs := if drop then firstn 2 coords else coords in
   let reduced := map (fun col => map (fun k => qmean (select k (combine labels col))) (ukeys labels)) cs in
   if center
   then map (fun k => nth (Z.to_nat k) (fst centres) 0) (ukeys labels)
        :: map (fun k => nth (Z.to_nat k) (snd centres) 0) (ukeys labels)
        :: skipn 2 reduced
   else reduced,
   match weights with
   | None => map (fun col => map (fun k => qmean (select k (combine labels col))) (ukeys labels)) data
   | Some ws =>
       map2 (fun col w => map (fun k => qavg (select k (combine labels col)) (select k (combine labels w)))
                              (ukeys labels)) data ws
   end,
   map (v2w1 tol)
     match weights with
     | None => map (fun col => map (fun k => qvar ddof (select k (combine labels col))) (ukeys labels)) data
     | Some ws =>
         if uncertainty
         then map (fun w => map (fun k => Some (Qred (/ qsum (select k (combine labels w))))) (ukeys labels)) ws
         else map2 (fun col w => map (fun k => Some (qwvar (select k (combine labels col))
                                                           (select k (combine labels w))))
                                     (ukeys labels)) data ws
     end).
Proof. exact block_mean_spec. Qed.
Print Assumptions C10_filter.

(** the reductions are what their names say *)
Theorem C10_mean_def : forall l, qmean l == Qsum l / Qlen l.
Proof. exact qmean_spec. Qed.
Print Assumptions C10_mean_def.

Theorem C10_weighted_mean_def : forall xs ws, qavg xs ws == Qsum (map2 Qmult xs ws) / Qsum ws.
Proof. exact qavg_spec. Qed.
Print Assumptions C10_weighted_mean_def.

Theorem C10_variance_def : forall ddof l v, qvar ddof l = Some v ->
  (ddof < length l)%nat /\
  v == Qsum (map (fun x => (x - qmean l) * (x - qmean l)) l) / inject_Z (Z.of_nat (length l - ddof)).
Proof. exact qvar_spec. Qed.
Print Assumptions C10_variance_def.

Theorem C10_variance_nan : forall ddof l, qvar ddof l = None <-> (length l <= ddof)%nat.
Proof. exact qvar_none. Qed.
Print Assumptions C10_variance_nan.

Theorem C10_weighted_variance_def : forall xs ws,
  qwvar xs ws = qavg (map (fun x => (x - qavg xs ws) * (x - qavg xs ws)) xs) ws.
Proof. exact qwvar_spec. Qed.
Print Assumptions C10_weighted_variance_def.

(** every returned weight column has one entry per non-empty block, lies in
    (0,1] and contains a 1 *)
Theorem C10_weights_range : forall ddof tol labels coords data weights centres center drop uncertainty oc om ow,
  0 <= tol -> labels <> [] ->
  block_mean ddof tol labels coords data weights centres center drop uncertainty = Some (oc, om, ow) ->
  Forall (fun col => length col = length (ukeys labels) /\
                     Forall (fun w => 0 < w /\ w <= 1) col /\
                     exists w, In w col /\ w == 1) ow.
Proof. exact blockmean_weights_range. Qed.
Print Assumptions C10_weights_range.

(** without input weights: smallest block variance above the tolerance
    divided by the block's variance ... *)
Theorem C10_w_unweighted : forall ddof tol labels col i k q, 0 <= tol ->
  nth_error (ukeys labels) i = Some k ->
  qvar ddof (select k (combine labels col)) = Some q -> tol < q ->
  exists m w, nth_error (v2w1 tol (spec_var ddof labels col)) i = Some w /\
              w == m / q /\ is_minpos tol (spec_var ddof labels col) m.
Proof. exact blockmean_w_unweighted. Qed.
Print Assumptions C10_w_unweighted.

(** ... and 1 for blocks whose variance is at or below the tolerance or NaN *)
Theorem C10_w_small : forall ddof tol labels col i k, 0 <= tol ->
  nth_error (ukeys labels) i = Some k ->
  match qvar ddof (select k (combine labels col)) with None => True | Some q => q <= tol end ->
  nth_error (v2w1 tol (spec_var ddof labels col)) i = Some 1.
Proof. exact blockmean_w_small. Qed.
Print Assumptions C10_w_small.

(** with weights and uncertainty=True: proportional to the sum of the input
    weights in the block; the block with the largest sum gets weight 1 *)
Theorem C10_w_uncertainty : forall tol labels w i k, 0 <= tol ->
  let S := fun k => qsum (select k (combine labels w)) in
  (forall k', In k' (ukeys labels) -> 0 < S k' /\ tol < / S k') ->
  nth_error (ukeys labels) i = Some k ->
  exists kmax wt, nth_error (v2w1 tol (spec_uvar labels w)) i = Some wt /\
                  wt == S k / S kmax /\
                  In kmax (ukeys labels) /\ (forall k', In k' (ukeys labels) -> S k' <= S kmax).
Proof. exact blockmean_w_uncertainty. Qed.
Print Assumptions C10_w_uncertainty.

(** otherwise: inversely proportional to the weighted variance *)
Theorem C10_w_weighted : forall tol labels col w i k, 0 <= tol ->
  nth_error (ukeys labels) i = Some k ->
  let q := qwvar (select k (combine labels col)) (select k (combine labels w)) in
  tol < q ->
  exists m wt, nth_error (v2w1 tol (spec_wvar labels col w)) i = Some wt /\
               wt == m / q /\ is_minpos tol (spec_wvar labels col w) m.
Proof. exact blockmean_w_weighted. Qed.
Print Assumptions C10_w_weighted.

(** uncertainty propagation without weights is rejected - and among
    well-shaped inputs nothing else is *)
Theorem C10_uncertainty_needs_weights : forall ddof tol labels coords data centres center drop,
  block_mean ddof tol labels coords data None centres center drop true = None.
Proof. exact block_mean_uncertainty_needs_weights. Qed.
Print Assumptions C10_uncertainty_needs_weights.

Theorem C10_rejects_iff : forall ddof tol labels coords data weights centres center drop uncertainty,
  block_mean ddof tol labels coords data weights centres center drop uncertainty = None <->
  br_valid labels coords data weights = false \/ (weights = None /\ uncertainty = true).
Proof. exact block_mean_none_iff. Qed.
Print Assumptions C10_rejects_iff.

(** *** non-vacuity *)

(** the docstring example (with tolerance 1/1000) plus a NaN *)
Example C10_nv_v2w :
  v2w1 (1 # 1000) [Some 0; Some 2; Some (2 # 10); None; Some (1 # 10000)] = [1; 1 # 10; 1; 1; 1]
  /\ is_minpos (1 # 1000) [Some 0; Some 2; Some (2 # 10); None; Some (1 # 10000)] (2 # 10).
Proof.
  split; [vm_compute; reflexivity|]. split.
  - exists (2 # 10). split; [right; right; left; reflexivity|]. split; reflexivity.
  - intros q [E|[E|[E|[E|[E|[]]]]]]; try discriminate; injection E as <-; intros H;
      try (exfalso; revert H; apply Qle_not_lt; discriminate); discriminate.
Qed.

(** six points in blocks 0,0,1,1,1,3 (block 2 empty): populations 2, 3, 1 *)
Example C10_nv_unweighted :
  block_mean 0 (1 # 10 ^ 15) [0; 0; 1; 1; 1; 3]%Z
    [[1; 2; 3; 4; 5; 6]; [6; 5; 4; 3; 2; 1]] [[0; 2; 0; 3; 6; 5]] None
    ([100; 101; 102; 103], [200; 201; 202; 203]) true true false
  = Some ([[100; 101; 103]; [200; 201; 203]], [[1; 3; 5]], [[1; 1 # 6; 1]]).
Proof. vm_compute. reflexivity. Qed.

Example C10_nv_ddof1 :
  block_mean 1 (1 # 10 ^ 15) [0; 0; 1; 1; 1; 3]%Z
    [[1; 2; 3; 4; 5; 6]; [6; 5; 4; 3; 2; 1]] [[0; 2; 0; 3; 6; 5]] None
    ([100; 101; 102; 103], [200; 201; 202; 203]) true true false
  = Some ([[100; 101; 103]; [200; 201; 203]], [[1; 3; 5]], [[1; 2 # 9; 1]]).
Proof. vm_compute. reflexivity. Qed.

Example C10_nv_uncertainty :
  block_mean 0 (1 # 10 ^ 15) [0; 0; 1; 1; 1; 3]%Z
    [[1; 2; 3; 4; 5; 6]; [6; 5; 4; 3; 2; 1]] [[0; 2; 0; 3; 6; 5]] (Some [[1; 2; 1; 2; 3; 1]])
    ([100; 101; 102; 103], [200; 201; 202; 203]) false true true
  = Some ([[3 # 2; 4; 6]; [11 # 2; 3; 1]], [[4 # 3; 4; 5]], [[1 # 2; 1; 1 # 6]]).
Proof. vm_compute. reflexivity. Qed.

(** the hypotheses of C10_w_uncertainty hold for that input *)
Example C10_nv_uncertainty_hyp :
  let S := fun k => qsum (select k (combine [0; 0; 1; 1; 1; 3]%Z [1; 2; 1; 2; 3; 1])) in
  forall k', In k' (ukeys [0; 0; 1; 1; 1; 3]%Z) -> 0 < S k' /\ (1 # 10 ^ 15) < / S k'.
Proof.
  intros S k' H. vm_compute in H. destruct H as [<-|[<-|[<-|[]]]]; vm_compute; split; reflexivity.
Qed.

Example C10_nv_weighted_variance :
  block_mean 0 (1 # 10 ^ 15) [0; 0; 1; 1; 1; 3]%Z
    [[1; 2; 3; 4; 5; 6]; [6; 5; 4; 3; 2; 1]] [[0; 2; 0; 3; 6; 5]] (Some [[1; 3; 1; 2; 1; 1]])
    ([100; 101; 102; 103], [200; 201; 202; 203]) false true false
  = Some ([[3 # 2; 4; 6]; [11 # 2; 3; 1]], [[3 # 2; 3; 5]], [[1; 1 # 6; 1]]).
Proof. vm_compute. reflexivity. Qed.
