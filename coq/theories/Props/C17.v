(** C17  longitude_continuity yields a valid region with unchanged angular
    meaning.  Statements only; proofs are in Proofs/LongitudeProofs.v.

    Angles are integers in units of 1/s degree for an arbitrary positive
    scale; [h] is 180 degrees in those units.  Every finite set of doubles is
    a set of such integers for a power-of-two s, and the code's [%], [+], [-]
    and comparisons are exact on them. *)
From Coq Require Import ZArith List Bool Lia.
From Verde Require Import Model.Longitude Proofs.LongitudeProofs.
Import ListNotations.
Open Scope Z_scope.

(** W' <= E' *)
Theorem C17_valid : forall h, 0 < h -> forall w e,
  in_range h w -> in_range h e -> Z.abs (e - w) <= 2 * h ->
  representable h w e \/ full_globe h w e ->
  let '(_, W, E) := lc_region h w e in W <= E.
Proof. exact lc_valid. Qed.
Print Assumptions C17_valid.

(** bounds congruent to the inputs modulo 360 *)
Theorem C17_congruent : forall h, 0 < h -> forall w e,
  in_range h w -> in_range h e -> Z.abs (e - w) <= 2 * h -> ~ full_globe h w e ->
  let '(_, W, E) := lc_region h w e in
  (W - w) mod (2 * h) = 0 /\ (E - e) mod (2 * h) = 0.
Proof. exact lc_congruent. Qed.
Print Assumptions C17_congruent.

(** a full-globe input becomes 0..360 *)
Theorem C17_full_globe : forall h, 0 < h -> forall w e,
  full_globe h w e -> lc_region h w e = (true, 0, 2 * h).
Proof. exact lc_full_globe. Qed.
Print Assumptions C17_full_globe.

(** width equals the eastward angle from the input W to the input E *)
Theorem C17_width : forall h, 0 < h -> forall w e,
  in_range h w -> in_range h e -> Z.abs (e - w) <= 2 * h -> ~ full_globe h w e ->
  representable h w e ->
  let '(_, W, E) := lc_region h w e in E - W = east_angle h w e.
Proof. exact lc_width. Qed.
Print Assumptions C17_width.

(** the returned bounds lie in the convention the code selected *)
Theorem C17_region_convention : forall h, 0 < h -> forall w e,
  in_range h w -> in_range h e -> Z.abs (e - w) <= 2 * h ->
  representable h w e \/ full_globe h w e ->
  let '(i360, W, E) := lc_region h w e in
  if i360 then 0 <= W /\ E <= 2 * h else - h <= W /\ E <= h.
Proof. exact lc_region_convention. Qed.
Print Assumptions C17_region_convention.

(** returned longitudes are congruent to the inputs ... *)
Theorem C17_lon_congruent : forall h, 0 < h -> forall i360 W E lon,
  in_range h lon -> (lc_lon h i360 W E lon - lon) mod (2 * h) = 0.
Proof. exact lc_lon_congruent. Qed.
Print Assumptions C17_lon_congruent.

(** ... and lie in the convention of the returned region *)
Theorem C17_lon_convention : forall h, 0 < h -> forall i360 W E lon,
  in_range h lon ->
  let l := lc_lon h i360 W E lon in
  if i360 then 0 <= l <= 2 * h else - h <= l <= h.
Proof. exact lc_lon_convention. Qed.
Print Assumptions C17_lon_convention.

(** a point is inside the returned region exactly when it is angularly within
    the original arc *)
Theorem C17_membership : forall h, 0 < h -> forall w e lon,
  in_range h w -> in_range h e -> Z.abs (e - w) <= 2 * h ->
  representable h w e \/ full_globe h w e ->
  in_range h lon ->
  let '(i360, W, E) := lc_region h w e in
  let l := lc_lon h i360 W E lon in
  (W <= l <= E) <-> (full_globe h w e \/ east_angle h w lon <= east_angle h w e).
Proof. exact lc_membership. Qed.
Print Assumptions C17_membership.

(** latitudes untouched *)
Theorem C17_lat_untouched : forall h q w e s n coords r,
  longitude_continuity h q w e s n coords = Some r ->
  snd (snd r) = n /\ snd (fst (snd r)) = s /\
  match coords, fst r with
  | Some (_, lats), Some (_, lats') => lats' = lats
  | None, None => True
  | _, _ => False
  end.
Proof. exact lc_lat_untouched. Qed.
Print Assumptions C17_lat_untouched.

(** rejection: exactly the documented ranges are accepted *)
Theorem C17_region_check_iff : forall h q w e s n,
  check_geo_region h q w e s n = true <->
  (in_range h w /\ in_range h e /\ - q <= s <= q /\ - q <= n <= q /\ Z.abs (e - w) <= 2 * h).
Proof. exact check_geo_region_iff. Qed.
Print Assumptions C17_region_check_iff.

Theorem C17_coords_check_iff : forall h q lons lats,
  check_geo_coords h q lons lats = true <->
  (Forall (in_range h) lons /\ Forall (fun l => - q <= l <= q) lats).
Proof. exact check_geo_coords_iff. Qed.
Print Assumptions C17_coords_check_iff.

Theorem C17_rejects_region : forall h q w e s n coords,
  check_geo_region h q w e s n = false ->
  longitude_continuity h q w e s n coords = None.
Proof. exact lc_rejects. Qed.
Print Assumptions C17_rejects_region.

Theorem C17_rejects_coords : forall h q w e s n lons lats,
  check_geo_coords h q lons lats = false ->
  longitude_continuity h q w e s n (Some (lons, lats)) = None.
Proof. exact lc_rejects_coords. Qed.
Print Assumptions C17_rejects_coords.

(** the decidable statement that the generated case files evaluate on the
    IMPLEMENTATION's output holds of the model's output for every input: a case
    whose implementation output equals the model output cannot be a violation *)
Theorem C17_decidable_statement_holds_of_model : forall h, 0 < h -> forall q w e s n coords,
  lc_holds h q w e s n coords (longitude_continuity h q w e s n coords) = true.
Proof. exact lc_model_holds. Qed.
Print Assumptions C17_decidable_statement_holds_of_model.

(** non-vacuity: the docstring's region, an arc across the 0/360 seam, an
    arc ending on a seam *)
Example C17_nv1 : in_range 180 350 /\ in_range 180 10 /\ representable 180 350 10 /\
  lc_region 180 350 10 = (false, -10, 10).
Proof. repeat split; try (unfold in_range; lia). exists (-1). cbv. right. split; discriminate. Qed.
Example C17_nv2 : representable 180 10 360 /\ lc_region 180 10 360 = (true, 10, 360).
Proof. split; [|reflexivity]. exists 0. cbv. left. split; discriminate. Qed.
Example C17_nv3 : representable 180 (-10) 180 /\ lc_region 180 (-10) 180 = (false, -10, 180).
Proof. split; [|reflexivity]. exists 0. cbv. right. split; discriminate. Qed.
