(** C01  Exact interpolators reproduce the data at the data points; a Trend of
    degree N reproduces every polynomial of total degree <= N everywhere.
    Statements only; proofs in Proofs/LeastSquaresProofs.v (least-squares
    interpolators: Spline / VectorSpline2D with forces at the data, Trend) and
    Proofs/InterpolatorsProofs.v (nearest neighbour, Chain, Vector).

    The least-squares estimators are modelled by the normal equations of
    Model/LeastSquares.v (tied to the code by the C02 certificate, also
    evaluated for every C01 least-squares case). *)
From Coq Require Import QArith Qabs ZArith List Bool Lia Lqa.
From Verde Require Import Lib.Dyadic Lib.QExtra Lib.LinAlgQ Model.LeastSquares Model.Interpolators
  Proofs.LeastSquaresProofs Proofs.InterpolatorsProofs.
Import ListNotations.
Open Scope Q_scope.

(** an undamped least-squares fit with strictly positive weights reproduces
    data that some parameter vector reproduces.  Spline / VectorSpline2D with
    forces at the data points: the Green's-function matrix is square, and when
    it is non-singular EVERY data vector is of the form A p0. *)
Theorem C01_consistent_ls_reproduces : forall n A d w s2 p p0,
  ls_shapes n A d w s2 p -> length p0 = n ->
  Forall (fun x => 0 < x) w ->
  veq d (mv A p0) ->
  normal_eq n A d w 0 s2 p ->
  veq (mv A p) d.
Proof. exact consistent_ls_reproduces. Qed.
Print Assumptions C01_consistent_ls_reproduces.

(** with an injective design matrix the parameters themselves are recovered *)
Theorem C01_consistent_ls_recovers_params : forall n A d w s2 p p0,
  ls_shapes n A d w s2 p -> length p0 = n ->
  Forall (fun x => 0 < x) w ->
  injective_on n A ->
  veq d (mv A p0) ->
  normal_eq n A d w 0 s2 p ->
  veq p p0.
Proof. exact consistent_ls_recovers_params. Qed.
Print Assumptions C01_consistent_ls_recovers_params.

(** Trend(deg) fitted (any positive weights) to the values of a polynomial of
    total degree <= deg - i.e. to [trend_predict deg coef0 pts] for some
    coefficient vector - at points where the monomial matrix has full column
    rank, predicts that polynomial at EVERY query location *)
Theorem C01_trend_reproduces_polynomial : forall deg pts w s2 coef coef0,
  let n := length (power_combinations deg) in
  let A := trend_jacobian deg pts in
  let d := trend_predict deg coef0 pts in
  length w = length pts -> length s2 = n -> length coef = n -> length coef0 = n ->
  Forall (fun x => 0 < x) w ->
  injective_on n A ->
  normal_eq n A d w 0 s2 coef ->
  forall query, veq (trend_predict deg coef query) (trend_predict deg coef0 query).
Proof. exact trend_reproduces_polynomial. Qed.
Print Assumptions C01_trend_reproduces_polynomial.

(** KNeighbors(k=1): at data point i of a pairwise-distinct cloud the nearest
    data point is i itself, so the prediction is datum i *)
Theorem C01_knn1_exact : forall pts data i,
  pairwise_distinct pts -> (i < length pts)%nat ->
  knn1_predict pts data (nth i pts (0, 0)) = Some (nth i data 0).
Proof. exact knn1_exact. Qed.
Print Assumptions C01_knn1_exact.

(** Chain: whatever the earlier steps predict, a chain whose last step
    reproduces the values it is fitted to reproduces the data *)
Theorem C01_chain_exact : forall steps last r,
  Forall shape_preserving steps -> shape_preserving last -> exact_step last ->
  veq (chain_run (steps ++ [last]) r) r.
Proof. exact chain_exact. Qed.
Print Assumptions C01_chain_exact.

(** Vector: exact component-wise *)
Theorem C01_vector_exact : forall comps data,
  Forall exact_step comps -> length comps = length data ->
  Forall2 veq (vector_run comps data) data.
Proof. exact vector_exact. Qed.
Print Assumptions C01_vector_exact.

(** ** non-vacuity *)
(** the column order of Trend.jacobian *)
Example ex_power_combinations :
  power_combinations 2 = [(0, 0); (1, 0); (0, 1); (2, 0); (1, 1); (0, 2)]%nat.
Proof. reflexivity. Qed.

(** three non-collinear points: the degree-1 monomial matrix is injective *)
Definition expts : list (Q * Q) := [(0, 0); (1, 0); (0, 1)].
Example ex_injective : injective_on 3 (trend_jacobian 1 expts).
Proof.
  intros h Hh Hz. destruct h as [|a [|b [|c [|? ?]]]]; try discriminate.
  assert (E: veq (mv (trend_jacobian 1 expts) [a; b; c]) [a; a + b; a + c]).
  { unfold mv, trend_jacobian, expts, monomials, Qpow. simpl. repeat constructor; ring. }
  rewrite E in Hz.
  inversion Hz as [|? ? E1 Hz1]; subst. inversion Hz1 as [|? ? E2 Hz2]; subst. inversion Hz2 as [|? ? E3 _]; subst.
  repeat constructor; lra.
Qed.
(** the plane 1 + 2 x - y is its own degree-1 fit *)
Example ex_trend_fit :
  normal_eq 3 (trend_jacobian 1 expts) (trend_predict 1 [1; 2; -1] expts) [1; 1; 1] 0 [1; 1; 1] [1; 2; -1].
Proof. unfold normal_eq, vzero. vm_compute. repeat constructor. Qed.

Example ex_pairwise_distinct : pairwise_distinct expts.
Proof.
  intros i j Hi Hj Hij [E1 E2]. simpl in Hi, Hj.
  destruct i as [|[|[|i]]]; destruct j as [|[|[|j]]]; try lia; simpl in E1, E2; try discriminate.
Qed.
Example ex_knn : map (knn1_predict expts [5; 6; 7]) expts = [Some 5; Some 6; Some 7].
Proof. vm_compute. reflexivity. Qed.

(** a chain of "mean removal" and an exact step *)
Example ex_chain : veq (chain_run ([fun r => map (fun _ => Qsum r / 3) r] ++ [fun r => r]) [1; 2; 6]) [1; 2; 6].
Proof. apply C01_chain_exact; [repeat constructor; intros r; apply map_length|intros r; reflexivity|intros r; reflexivity]. Qed.
