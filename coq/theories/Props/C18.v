(** C18  Grid <-> table conversions preserve every value at its own
    coordinates.  Statements only; proofs are in Proofs/XarrayProofs.v, the
    model of verde.utils.make_xarray_grid / meshgrid_to_1d / meshgrid_from_1d /
    check_meshgrid / grid_to_table in Model/Xarray.v.

    Values are opaque ([V] arbitrary): the code passes them through.  A 2-D
    array is the list of its rows; [cell a i j] is a[i][j]; [ravel] is the
    C-order ravel; [close a b] is the element test of numpy.allclose(a, b).
    [None] is ValueError.  [sel ds nm i j = Some (y, x, v)]: variable [nm] of
    the Dataset has value [v] at index (i, j) of its dimensions, where the
    coordinates along those dimensions are y and x. *)
From Coq Require Import String List Bool Arith ZArith QArith Qabs.
From Verde Require Import Lib.Dyadic Model.Xarray Proofs.XarrayProofs.
Import ListNotations.
Open Scope nat_scope.

(** ** Row-major order *)

(** entry k of the ravel of an nn x ne array is cell (k / ne, k mod ne) *)
Theorem C18_ravel_row_major : forall (V : Type) nn ne (a : arr2 V) k,
  rect nn ne a = true -> k < nn * ne ->
  nth_error (ravel a) k = cell a (k / ne) (k mod ne).
Proof. exact nth_error_ravel. Qed.
Print Assumptions C18_ravel_row_major.

Theorem C18_ravel_length : forall (V : Type) nn ne (a : arr2 V),
  rect nn ne a = true -> length (ravel a) = nn * ne.
Proof. exact length_ravel_rect. Qed.
Print Assumptions C18_ravel_length.

(** entry (i, j) of the transposed array is entry (j, i) *)
Theorem C18_transpose_cell : forall (V : Type) nn ne (a : arr2 V) i j,
  rect ne nn a = true -> 0 < ne -> i < nn -> cell (transpose a) i j = cell a j i.
Proof. exact transpose_cell. Qed.
Print Assumptions C18_transpose_cell.

(** ** make_xarray_grid *)

(** each value of the k-th data array is the value of the variable carrying
    the k-th name at the same index, and the grid's coordinates at that index
    are the source cell's: n[i], e[j] for 1-D input; for 2-D input
    N[i][j], E[i][j] up to the allclose test that accepted the input and
    exactly for exact meshgrids (see [source_cell]) *)
Theorem C18_make_grid_placement : forall (V : Type) (close : V -> V -> bool)
    ce cn extras data dnames dims xnames ds k nm (a : arr2 V) i j v,
  make_xarray_grid close ce cn extras data dnames dims xnames = Some ds ->
  NoDup (data_names_of data dnames) ->
  nth_error (data_names_of data dnames) k = Some nm ->
  nth_error (data_list data) k = Some a ->
  cell a i j = Some v ->
  exists y x, sel ds nm i j = Some (y, x, v) /\ source_cell close ce cn i j y x.
Proof. exact make_grid_placement. Qed.
Print Assumptions C18_make_grid_placement.

(** the same for every extra coordinate *)
Theorem C18_make_grid_placement_extra : forall (V : Type) (close : V -> V -> bool)
    ce cn extras data dnames dims xnames ds k nm (a : arr2 V) i j v,
  make_xarray_grid close ce cn extras data dnames dims xnames = Some ds ->
  NoDup (extra_names_of extras xnames) ->
  nm <> fst dims -> nm <> snd dims ->
  nth_error (extra_names_of extras xnames) k = Some nm ->
  nth_error extras k = Some a ->
  cell a i j = Some v ->
  exists y x, sel_coord ds nm i j = Some (y, x, v) /\ source_cell close ce cn i j y x.
Proof. exact make_grid_placement_extra. Qed.
Print Assumptions C18_make_grid_placement_extra.

(** the requested names and dims, nothing else *)
Theorem C18_make_grid_names : forall (V : Type) (close : V -> V -> bool)
    ce cn extras data dnames dims xnames (ds : dataset V),
  make_xarray_grid close ce cn extras data dnames dims xnames = Some ds ->
  map fst (ds_vars ds) = data_names_of data dnames /\
  map fst (ds_coords ds) = snd dims :: fst dims :: extra_names_of extras xnames /\
  Forall (fun p => v_dims (snd p) = dims) (ds_vars ds) /\
  length (ds_vars ds) = length (data_list data) /\
  length (ds_coords ds) = 2 + length extras.
Proof. exact make_grid_names. Qed.
Print Assumptions C18_make_grid_names.

(** accepted exactly when [make_valid]: both coordinates 1-D, or both 2-D of
    one shape with all extra coordinates and allclose-meshgrids; data and
    extra coordinates of the grid's shape; name counts matching (None never
    matches); two different dimension names *)
Theorem C18_make_grid_accepts : forall (V : Type) (close : V -> V -> bool)
    ce cn (extras : list (arr2 V)) data dnames dims xnames,
  make_valid close ce cn extras data dnames dims xnames = true ->
  exists ds, make_xarray_grid close ce cn extras data dnames dims xnames = Some ds.
Proof. exact make_accepts. Qed.
Print Assumptions C18_make_grid_accepts.

Theorem C18_make_grid_rejects : forall (V : Type) (close : V -> V -> bool)
    ce cn (extras : list (arr2 V)) data dnames dims xnames,
  make_valid close ce cn extras data dnames dims xnames = false ->
  make_xarray_grid close ce cn extras data dnames dims xnames = None.
Proof. exact make_rejects. Qed.
Print Assumptions C18_make_grid_rejects.

(** 2-D coordinates that are not meshgrids: some easting entry differs from
    the entry above it in the first row, or some northing entry differs from
    the first entry of its row *)
Theorem C18_make_grid_rejects_non_meshgrid_easting : forall (V : Type) (close : V -> V -> bool)
    (E N : arr2 V) extras data dnames dims xnames i j x0 x,
  cell E 0 j = Some x0 -> cell E i j = Some x -> close x0 x = false ->
  make_xarray_grid close (A2 E) (A2 N) extras data dnames dims xnames = None.
Proof. exact make_rejects_non_meshgrid_easting. Qed.
Print Assumptions C18_make_grid_rejects_non_meshgrid_easting.

Theorem C18_make_grid_rejects_non_meshgrid_northing : forall (V : Type) (close : V -> V -> bool)
    (E N : arr2 V) extras data dnames dims xnames i j y0 y,
  cell N i 0 = Some y0 -> cell N i j = Some y -> close y0 y = false ->
  make_xarray_grid close (A2 E) (A2 N) extras data dnames dims xnames = None.
Proof. exact make_rejects_non_meshgrid_northing. Qed.
Print Assumptions C18_make_grid_rejects_non_meshgrid_northing.

Theorem C18_make_grid_rejects_mixed_ndim : forall (V : Type) (close : V -> V -> bool)
    (e : list V) (N : arr2 V) extras data dnames dims xnames,
  make_xarray_grid close (A1 e) (A2 N) extras data dnames dims xnames = None /\
  make_xarray_grid close (A2 N) (A1 e) extras data dnames dims xnames = None.
Proof. exact make_rejects_mixed_ndim. Qed.
Print Assumptions C18_make_grid_rejects_mixed_ndim.

(** mismatched name counts, None names *)
Theorem C18_make_grid_rejects_data_names : forall (V : Type) (close : V -> V -> bool)
    ce cn (extras : list (arr2 V)) data dnames dims xnames,
  data <> DNone ->
  names_valid (length (data_list data)) dnames = false ->
  make_xarray_grid close ce cn extras data dnames dims xnames = None.
Proof. exact make_rejects_data_names. Qed.
Print Assumptions C18_make_grid_rejects_data_names.

Theorem C18_make_grid_rejects_extra_names : forall (V : Type) (close : V -> V -> bool)
    ce cn (extras : list (arr2 V)) data dnames dims xnames,
  extras <> [] ->
  names_valid (length extras) xnames = false ->
  make_xarray_grid close ce cn extras data dnames dims xnames = None.
Proof. exact make_rejects_extra_names. Qed.
Print Assumptions C18_make_grid_rejects_extra_names.

(** wrong shapes *)
Theorem C18_make_grid_rejects_shape_1d : forall (V : Type) (close : V -> V -> bool)
    (e n : list V) extras data dnames dims xnames (a : arr2 V),
  In a (extras ++ data_list data) -> rect (length n) (length e) a = false ->
  make_xarray_grid close (A1 e) (A1 n) extras data dnames dims xnames = None.
Proof. exact make_rejects_shape_1d. Qed.
Print Assumptions C18_make_grid_rejects_shape_1d.

Theorem C18_make_grid_rejects_shape_2d : forall (V : Type) (close : V -> V -> bool)
    (E N : arr2 V) extras data dnames dims xnames (a : arr2 V),
  In a (N :: extras ++ data_list data) -> rect (length E) (length (first_row E)) a = false ->
  make_xarray_grid close (A2 E) (A2 N) extras data dnames dims xnames = None.
Proof. exact make_rejects_shape_2d. Qed.
Print Assumptions C18_make_grid_rejects_shape_2d.

(** ** grid_to_table *)

(** for a grid (Dataset, named or unnamed DataArray) over the dimensions
    (d0, d1) of its first variable, whose variables and non-index coordinates
    are each stored as (d0, d1) or as (d1, d0) ([aligned_grid]): columns d0,
    d1, the extra coordinates in the grid's coordinate order, the variables;
    nn * ne rows; row k holds the coordinates, and the value of every extra
    coordinate and variable AT cell (k / ne, k mod ne) ([value_at] reads a
    (d1, d0) variable transposed) *)
Theorem C18_table_rows : forall (V : Type) (g : grid V) d0 d1 (north east : list V),
  aligned_grid g d0 d1 north east ->
  let nn := length north in
  let ne := length east in
  let extras := filter (is_extra d0 d1) (grid_coords g) in
  exists t, grid_to_table g = Some t /\
    map fst t = d0 :: d1 :: map fst extras ++ map fst (grid_vars g) /\
    Forall (fun c => length (snd c) = nn * ne) t /\
    forall k, k < nn * ne ->
      table_row t k =
        nth_error north (k / ne) :: nth_error east (k mod ne)
        :: map (fun p => coord_at d0 d1 (snd p) (k / ne) (k mod ne)) extras
        ++ map (fun p => value_at d0 d1 (snd p) (k / ne) (k mod ne)) (grid_vars g).
Proof. exact table_rows. Qed.
Print Assumptions C18_table_rows.

(** the decidable statement evaluated on the implementation's table in the
    generated case files is satisfied by the model's table on every aligned
    grid (it restates [C18_table_rows]) *)
Theorem C18_table_holds_model : forall (V : Type) (veqb : V -> V -> bool),
  (forall x y, veqb x y = true <-> x = y) ->
  forall (g : grid V) d0 d1 (north east : list V),
  aligned_grid g d0 d1 north east ->
  table_holds veqb g (grid_to_table g) = true.
Proof. exact table_holds_model. Qed.
Print Assumptions C18_table_holds_model.

(** ** arrays -> grid -> table returns the raveled inputs *)

Theorem C18_grid_table_roundtrip : forall (V : Type) (close : V -> V -> bool)
    ce cn (extras : list (arr2 V)) data dnames dims xnames ds,
  make_xarray_grid close ce cn extras data dnames dims xnames = Some ds ->
  data_list data <> [] ->
  ~ In (fst dims) (extra_names_of extras xnames) ->
  ~ In (snd dims) (extra_names_of extras xnames) ->
  exists e n, horizontal close ce cn extras = Some (e, n) /\
    grid_to_table (GDataset ds) =
      Some ((fst dims, ravel (mesh_n e n)) :: (snd dims, ravel (mesh_e e n))
            :: combine (extra_names_of extras xnames) (map (@ravel V) extras)
            ++ combine (data_names_of data dnames) (map (@ravel V) (data_list data))).
Proof. exact grid_table_roundtrip. Qed.
Print Assumptions C18_grid_table_roundtrip.

Theorem C18_grid_table_roundtrip_meshgrid : forall (V : Type) (close : V -> V -> bool)
    (E N : arr2 V) extras data dnames dims xnames ds,
  make_xarray_grid close (A2 E) (A2 N) extras data dnames dims xnames = Some ds ->
  rows_equal_first E -> cols_equal_first N ->
  data_list data <> [] ->
  ~ In (fst dims) (extra_names_of extras xnames) ->
  ~ In (snd dims) (extra_names_of extras xnames) ->
  grid_to_table (GDataset ds) =
    Some ((fst dims, ravel N) :: (snd dims, ravel E)
          :: combine (extra_names_of extras xnames) (map (@ravel V) extras)
          ++ combine (data_names_of data dnames) (map (@ravel V) (data_list data))).
Proof. exact grid_table_roundtrip_meshgrid. Qed.
Print Assumptions C18_grid_table_roundtrip_meshgrid.

(** ** meshgrid_to_1d / meshgrid_from_1d are mutually inverse *)

Theorem C18_meshgrid_to_from_1d : forall (V : Type) (close : V -> V -> bool)
    (e n : list V) extras,
  (forall x, In x e \/ In x n -> close x x = true) -> e <> [] -> n <> [] ->
  forallb (rect (length n) (length e)) extras = true ->
  meshgrid_from_1d e n extras = Some (mesh_e e n, mesh_n e n) /\
  meshgrid_to_1d close (mesh_e e n) (mesh_n e n) extras = Some (e, n).
Proof. exact meshgrid_to_from_1d. Qed.
Print Assumptions C18_meshgrid_to_from_1d.

Theorem C18_meshgrid_from_to_1d : forall (V : Type) (close : V -> V -> bool)
    (E N : arr2 V) extras e n,
  meshgrid_to_1d close E N extras = Some (e, n) ->
  rows_equal_first E -> cols_equal_first N ->
  meshgrid_from_1d e n extras = Some (E, N).
Proof. exact meshgrid_from_to_1d. Qed.
Print Assumptions C18_meshgrid_from_to_1d.

Theorem C18_meshgrid_inverse : forall (V : Type) (close : V -> V -> bool) (extras : list (arr2 V)),
  (forall e n : list V, (forall x, In x e \/ In x n -> close x x = true) -> e <> [] -> n <> [] ->
     forallb (rect (length n) (length e)) extras = true ->
     exists E N, meshgrid_from_1d e n extras = Some (E, N) /\
                 meshgrid_to_1d close E N extras = Some (e, n)) /\
  (forall (E N : arr2 V) e n, meshgrid_to_1d close E N extras = Some (e, n) ->
     rows_equal_first E -> cols_equal_first N ->
     meshgrid_from_1d e n extras = Some (E, N)).
Proof. exact meshgrid_inverse. Qed.
Print Assumptions C18_meshgrid_inverse.

(** the vectors returned by meshgrid_to_1d agree with every cell of the input *)
Theorem C18_meshgrid_to_1d_cells : forall (V : Type) (close : V -> V -> bool)
    (E N : arr2 V) extras e n i j x0 y0,
  meshgrid_to_1d close E N extras = Some (e, n) ->
  cell E i j = Some x0 -> cell N i j = Some y0 ->
  exists x y, nth_error e j = Some x /\ nth_error n i = Some y /\
    close x x0 = true /\ close y y0 = true /\
    (rows_equal_first E -> x = x0) /\ (cols_equal_first N -> y = y0).
Proof. exact meshgrid_to_1d_cells. Qed.
Print Assumptions C18_meshgrid_to_1d_cells.

Theorem C18_meshgrid_from_1d_rejects : forall (V : Type) (e n : list V) extras,
  forallb (rect (length n) (length e)) extras = false -> meshgrid_from_1d e n extras = None.
Proof. exact meshgrid_from_1d_rejects. Qed.
Print Assumptions C18_meshgrid_from_1d_rejects.

(** ** The instance evaluated by the generated case files *)

(** the decidable exact-meshgrid test is the stated condition *)
Theorem C18_exact_meshgrid_decidable : forall (V : Type) (veqb : V -> V -> bool),
  (forall x y, veqb x y = true <-> x = y) ->
  forall nn ne (E N : arr2 V), rect nn ne E = true ->
  (exact_meshgrid_b veqb E N = true <-> rows_equal_first E /\ cols_equal_first N).
Proof. exact exact_meshgrid_b_spec. Qed.
Print Assumptions C18_exact_meshgrid_decidable.

Theorem C18_deqb_is_equality : forall a b : D, deqb a b = true <-> a = b.
Proof. exact deqb_spec. Qed.
Print Assumptions C18_deqb_is_equality.

(** [dclose] is numpy.allclose's element test over the rationals, with the
    double constants rtol = 1e-5 and atol = 1e-8, and it is reflexive *)
Theorem C18_dclose_is_allclose : forall a b : D,
  dclose a b = true <->
  (Qabs (D2Q a - D2Q b) <= D2Q np_atol + D2Q np_rtol * Qabs (D2Q b))%Q.
Proof. exact dclose_spec. Qed.
Print Assumptions C18_dclose_is_allclose.

Theorem C18_dclose_refl : forall x : D, dclose x x = true.
Proof. exact dclose_refl. Qed.
Print Assumptions C18_dclose_refl.

(** array entries in the case files are [option D], [None] being NaN:
    equality is positional (NaN matches NaN), closeness is false on NaN and
    reflexive on finite values *)
Theorem C18_odeqb_is_equality : forall a b : OD, odeqb a b = true <-> a = b.
Proof. exact odeqb_spec. Qed.
Print Assumptions C18_odeqb_is_equality.

Theorem C18_oclose_is_allclose : forall a b : OD,
  oclose a b = true <-> exists x y, a = Some x /\ b = Some y /\ dclose x y = true.
Proof. exact oclose_spec. Qed.
Print Assumptions C18_oclose_is_allclose.

Theorem C18_oclose_refl_finite : forall x : D, oclose (Some x) (Some x) = true.
Proof. exact oclose_refl_finite. Qed.
Print Assumptions C18_oclose_refl_finite.

(** ** Non-vacuity *)
Open Scope string_scope.

Definition nv_E : arr2 nat := [[1; 2; 4]; [1; 2; 4]].
Definition nv_N : arr2 nat := [[10; 10; 10]; [30; 30; 30]].
Definition nv_a : arr2 nat := [[0; 1; 2]; [3; 4; 5]].
Definition nv_b : arr2 nat := [[100; 101; 102]; [103; 104; 105]].
Definition nv_u : arr2 nat := [[1000; 1001; 1002]; [1003; 1004; 1005]].

(** a 2 x 3 exact meshgrid with two variables and an extra coordinate is
    accepted; the value 105 of b sits at northing 30, easting 4 *)
Example C18_nv_make :
  exists ds,
    make_xarray_grid Nat.eqb (A2 nv_E) (A2 nv_N) [nv_u] (DTuple [nv_a; nv_b]) (NList ["a"; "b"])
      ("northing", "easting") (NStr "upward") = Some ds /\
    sel ds "b" 1 2 = Some (30, 4, 105) /\ sel_coord ds "upward" 0 1 = Some (10, 2, 1001) /\
    rows_equal_first nv_E /\ cols_equal_first nv_N /\ NoDup ["a"; "b"] /\
    aligned_grid (GDataset ds) "northing" "easting" [10; 30] [1; 2; 4] /\
    exists t, grid_to_table (GDataset ds) = Some t /\
      table_row t 5 = [Some 30; Some 4; Some 1005; Some 5; Some 105].
Proof.
  eexists. split; [reflexivity|]. split; [reflexivity|]. split; [reflexivity|].
  split; [intros r [<-|[<-|[]]]; reflexivity|].
  split.
  { intros r x [<-|[<-|[]]] Hx; cbn in Hx; destruct Hx as [<-|[<-|[<-|[]]]]; reflexivity. }
  split.
  { constructor; [cbn; intros [H|[]]; discriminate|]. constructor; [intros []|constructor]. }
  split.
  { unfold aligned_grid. cbn. split; [discriminate|].
    split; [eexists _, _, _; split; reflexivity|].
    split; [reflexivity|]. split; [reflexivity|].
    split; [repeat constructor; left; split; reflexivity|].
    repeat constructor; cbn; try discriminate.
    intros _. eexists. split; [reflexivity|]. left. split; reflexivity. }
  eexists. split; reflexivity.
Qed.

(** 1-D input, a name-count mismatch and a non-meshgrid are covered by the
    hypotheses of the rejection theorems *)
Example C18_nv_reject :
  make_xarray_grid Nat.eqb (A1 [1; 2; 4]) (A1 [10; 30]) [] (DTuple [nv_a; nv_b]) (NStr "a")
    ("northing", "easting") NNone = None /\
  names_valid (length (data_list (DTuple [nv_a; nv_b]))) (NStr "a") = false /\
  make_xarray_grid Nat.eqb (A2 nv_N) (A2 nv_E) [] (DOne nv_a) (NStr "a") ("northing", "easting") NNone = None /\
  cell nv_N 0 0 = Some 10 /\ cell nv_N 1 0 = Some 30 /\ Nat.eqb 10 30 = false /\
  make_valid Nat.eqb (A1 [1; 2; 4]) (A1 [10; 30]) [] (DOne nv_a) (NStr "a") ("northing", "easting") NNone = true.
Proof. repeat split. Qed.

(** the inverse pair on a concrete non-square input *)
Example C18_nv_meshgrid :
  meshgrid_from_1d [1; 2; 4] [10; 30] [nv_u] = Some (nv_E, nv_N) /\
  meshgrid_to_1d Nat.eqb nv_E nv_N [nv_u] = Some ([1; 2; 4], [10; 30]).
Proof. split; reflexivity. Qed.

(** finding F6 (repaired): a Dataset whose second variable is stored as
    (easting, northing).  Row 1 is the cell (northing 10, easting 2), where b
    is 101.  The code before the repair ([grid_to_table_pinned]) put 103
    there; the repaired code puts 101, as [C18_table_rows] demands *)
Definition nv_mixed : grid nat :=
  GDataset (mk_ds [("easting", Idx [1; 2; 4]); ("northing", Idx [10; 30]);
                   ("upward", Aux (mk_var ("easting", "northing") [[1000; 1003]; [1001; 1004]; [1002; 1005]]))]
             [("a", mk_var ("northing", "easting") nv_a);
              ("b", mk_var ("easting", "northing") [[100; 103]; [101; 104]; [102; 105]])]).

Example C18_F6_pinned_refuted :
  exists t, grid_to_table_pinned nv_mixed = Some t /\
    table_row t 1 = [Some 10; Some 2; Some 1003; Some 1; Some 103] /\
    value_at "northing" "easting" (mk_var ("easting", "northing") [[100; 103]; [101; 104]; [102; 105]]) 0 1 = Some 101.
Proof. eexists. repeat split. Qed.

Example C18_nv_mixed_dims :
  aligned_grid nv_mixed "northing" "easting" [10; 30] [1; 2; 4] /\
  exists t, grid_to_table nv_mixed = Some t /\
    table_row t 1 = [Some 10; Some 2; Some 1001; Some 1; Some 101].
Proof.
  split; [|eexists; split; reflexivity].
  unfold aligned_grid, nv_mixed. cbn. split; [discriminate|].
  split; [eexists _, _, _; split; reflexivity|].
  split; [reflexivity|]. split; [reflexivity|].
  split.
  - constructor; [left; split; reflexivity|]. constructor; [right; split; reflexivity|constructor].
  - repeat constructor; cbn; try discriminate.
    intros _. eexists. split; [reflexivity|]. right. split; reflexivity.
Qed.
