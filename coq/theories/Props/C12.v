(** C12  Scores come from clones fitted on the training rows only, with the
    stated metric.  Statements only; proofs in Proofs/ScoringProofs.v,
    Proofs/ScoringHeapProofs.v, Proofs/ScoringSpecProofs.v.

    The estimator is abstract: [fit] maps the (coordinates, data, weights) it
    is given to a fitted state, [predict] maps a fitted state and coordinates
    to a tuple of components.  The cross-validator is the list of
    (train indices, test indices) it yields.  A metric takes (optional sample
    weights, true values, predicted values). *)
From Coq Require Import QArith List Bool Arith Permutation.
From Verde Require Import Lib.QExtra Model.Scoring Model.ScoringCases
  Proofs.ScoringProofs Proofs.ScoringHeapProofs Proofs.ScoringSpecProofs.
Import ListNotations.
Open Scope Q_scope.

(** ** selection *)
(** indexing depends only on the selected rows *)
Theorem C12_select_local : forall (A : Type) (d : A) idx xs xs',
  (forall i, In i idx -> nth i xs d = nth i xs' d) -> select d idx xs = select d idx xs'.
Proof. exact @select_local. Qed.
Print Assumptions C12_select_local.

(** row r of the selection is row idx[r] of the original *)
Theorem C12_select_nth : forall (A : Type) (d : A) idx xs r, (r < length idx)%nat ->
  nth r (select d idx xs) d = nth (nth r idx O) xs d.
Proof. exact @select_nth. Qed.
Print Assumptions C12_select_nth.

(** ** cross_val_score *)
(** score k is the mean over components of the metric of (test weights of the
    component, test data of the component, prediction at the test coordinates
    of the estimator fitted on the training rows) *)
Theorem C12_cvs_metric : forall (M : Type) (fit : dataset -> M) predict (mt : metric) splits ds k tr te,
  nth_error splits k = Some (tr, te) ->
  nth_error (cross_val_score M fit predict mt splits ds) k =
  Some (qmean (score_components mt
                 (predict (fit (select_ds tr ds)) (map (select 0 te) (ds_coords ds)))
                 (map (select 0 te) (ds_data ds))
                 (option_map (map (select 0 te)) (ds_weights ds)))).
Proof. exact cvs_metric. Qed.
Print Assumptions C12_cvs_metric.

Theorem C12_score_components : forall (mt : metric) pred data w i,
  (i < length pred)%nat -> (i < length data)%nat ->
  match w with Some ws => length ws = length data | None => True end ->
  nth i (score_components mt pred data w) 0 = mt (weight_of w i) (nth i data []) (nth i pred []) /\
  length (score_components mt pred data w) = Nat.min (length pred) (length data).
Proof. exact score_components_spec. Qed.
Print Assumptions C12_score_components.

Theorem C12_cvs_length : forall (M : Type) (fit : dataset -> M) predict (mt : metric) splits ds,
  length (cross_val_score M fit predict mt splits ds) = length splits.
Proof. exact cvs_length. Qed.
Print Assumptions C12_cvs_length.

(** no leakage in either direction: score k does not change when the dataset
    changes anywhere except on the training rows and the test rows of split k
    ([rows_agree idx ds ds']: same number of arrays, and every coordinate,
    data and weight array has the same values at the rows in idx) *)
Theorem C12_cvs_noninterference : forall (M : Type) (fit : dataset -> M) predict (mt : metric) splits ds ds' k tr te,
  nth_error splits k = Some (tr, te) ->
  rows_agree tr ds ds' -> rows_agree te ds ds' ->
  nth_error (cross_val_score M fit predict mt splits ds) k =
  nth_error (cross_val_score M fit predict mt splits ds') k.
Proof. exact cvs_noninterference. Qed.
Print Assumptions C12_cvs_noninterference.

(** the clone of split k sees the training rows only *)
Theorem C12_fit_sees_train_only : forall (M : Type) (fit : dataset -> M) tr ds ds',
  rows_agree tr ds ds' -> fit (select_ds tr ds) = fit (select_ds tr ds').
Proof. exact fit_sees_train_only. Qed.
Print Assumptions C12_fit_sees_train_only.

(** the statement the per-run check evaluates on verde's output is this right-hand side *)
Theorem C12_checked_statement : forall (mt : metric) data w (s : split_obs),
  match w with Some ws => length ws = length data | None => True end ->
  spec_score mt data w s =
  qmean (score_components mt (Qc (sp_pred s)) (map (select 0 (sp_test s)) data)
                          (option_map (map (select 0 (sp_test s))) w)).
Proof. exact spec_score_is_cvs_metric. Qed.
Print Assumptions C12_checked_statement.

(** ** serial = dask.delayed under any task order *)
Theorem C12_schedule_independent : forall (R : Type) (tasks : list (unit -> R)) order,
  Permutation order (seq 0 (length tasks)) ->
  run_tasks order tasks = run_tasks (seq 0 (length tasks)) tasks /\
  run_tasks order tasks = map (fun t => Some (t tt)) tasks.
Proof. exact schedule_independent_full. Qed.
Print Assumptions C12_schedule_independent.

Theorem C12_cvs_delayed_eq_serial : forall (M : Type) (fit : dataset -> M) predict (mt : metric) order splits ds,
  Permutation order (seq 0 (length splits)) ->
  cross_val_score_delayed M fit predict mt order splits ds =
  map Some (cross_val_score M fit predict mt splits ds).
Proof. exact cvs_delayed_eq_serial. Qed.
Print Assumptions C12_cvs_delayed_eq_serial.

(** with mutable estimator objects: every split fits its own clone, so ANY
    interleaving of the fit and score steps in which each split is scored
    after it was fitted gives the serial scores, and the estimator passed in
    (address a) and every other existing object are left exactly as they were *)
Theorem C12_clones_make_schedules_equal :
  forall (P M : Type) (fitp : P -> dataset -> M) predict (mt : metric) (h : heap P M) (a : nat) (dflt : P) ds splits evs,
  (a < length h)%nat ->
  fit_before_score [] evs ->
  (forall k, (k < length splits)%nat -> In (EScore k) evs) ->
  let p0 := o_params P M (nth a h {| o_params := dflt; o_state := None |}) in
  let (h2, res) := cvs_heap P M fitp predict mt h a dflt ds splits evs in
  res = map (fun s => Some (Some (fit_score M (fitp p0) predict mt (select_ds (fst s) ds) (select_ds (snd s) ds)))) splits /\
  (forall i, (i < length h)%nat -> nth_error h2 i = nth_error h i) /\
  nth_error h2 a = nth_error h a.
Proof. intros P M fitp predict mt h a dflt ds splits evs Ha. exact (cvs_heap_any_schedule P M fitp predict mt h a dflt ds splits Ha evs). Qed.
Print Assumptions C12_clones_make_schedules_equal.

Theorem C12_heap_schedule_independent :
  forall (P M : Type) (fitp : P -> dataset -> M) predict (mt : metric) (h : heap P M) (a : nat) (dflt : P) ds splits evs,
  (a < length h)%nat ->
  fit_before_score [] evs ->
  (forall k, (k < length splits)%nat -> In (EScore k) evs) ->
  snd (cvs_heap P M fitp predict mt h a dflt ds splits evs) =
  snd (cvs_heap P M fitp predict mt h a dflt ds splits (serial_events (length splits))).
Proof. intros P M fitp predict mt h a dflt ds splits evs Ha. exact (cvs_heap_schedule_independent P M fitp predict mt h a dflt ds splits Ha evs). Qed.
Print Assumptions C12_heap_schedule_independent.

(** ** train_test_split *)
(** every coordinate, data and weight array of a returned set is the original
    array indexed by the SAME index list: row r of every array of the training
    set is original row train[r] *)
Theorem C12_tts_aligned : forall split ds j r,
  (j < length (ds_arrays ds))%nat ->
  let (tr, te) := train_test_split split ds in
  ((r < length (fst split))%nat ->
     nth r (nth j (ds_arrays tr) []) 0 = nth (nth r (fst split) O) (nth j (ds_arrays ds) []) 0) /\
  ((r < length (snd split))%nat ->
     nth r (nth j (ds_arrays te) []) 0 = nth (nth r (snd split) O) (nth j (ds_arrays ds) []) 0).
Proof. exact tts_aligned. Qed.
Print Assumptions C12_tts_aligned.

Theorem C12_tts_same_rows : forall split ds,
  let (tr, te) := train_test_split split ds in
  ds_arrays tr = map (select 0 (fst split)) (ds_arrays ds) /\
  ds_arrays te = map (select 0 (snd split)) (ds_arrays ds) /\
  length (ds_coords tr) = length (ds_coords ds) /\ length (ds_data tr) = length (ds_data ds) /\
  length (ds_coords te) = length (ds_coords ds) /\ length (ds_data te) = length (ds_data ds).
Proof. exact tts_same_rows. Qed.
Print Assumptions C12_tts_same_rows.

(** complementary subsets, given that the splitter's index lists together are a permutation of the rows *)
Theorem C12_tts_complementary : forall (split : list nat * list nat) n,
  Permutation (fst split ++ snd split) (seq 0 n) ->
  NoDup (fst split) /\ NoDup (snd split) /\
  (forall i, In i (fst split) -> ~ In i (snd split)) /\
  (forall i, (i < n)%nat <-> In i (fst split) \/ In i (snd split)) /\
  (length (fst split) + length (snd split) = n)%nat.
Proof. exact tts_complementary. Qed.
Print Assumptions C12_tts_complementary.

(** ** SplineCV *)
(** numpy.argmax: a maximum, and the first one *)
Theorem C12_argmax_first : forall l, l <> [] ->
  let r := argmax_first l in
  (r < length l)%nat /\
  (forall j, (j < length l)%nat -> nth j l 0 <= nth r l 0) /\
  (forall j, (j < r)%nat -> nth j l 0 < nth r l 0).
Proof. exact argmax_first_spec. Qed.
Print Assumptions C12_argmax_first.

(** candidates in itertools.product(mindists, dampings) order *)
Theorem C12_param_grid_order : forall ms dm a b,
  (a < length ms)%nat -> (b < length dm)%nat ->
  nth (a * length dm + b) (param_grid ms dm) (0, 0) = (nth a ms 0, nth b dm 0) /\
  length (param_grid ms dm) = (length ms * length dm)%nat.
Proof. exact param_grid_spec. Qed.
Print Assumptions C12_param_grid_order.

(** the chosen (mindist, damping) maximise the mean cross-validation score,
    earliest candidate on ties; the final model is fitted with them on ALL the data *)
Theorem C12_splinecv_selects_best :
  forall (M : Type) (fitp : Q * Q -> dataset -> M) predict (mt : metric) ms dm splits ds,
  ms <> [] -> dm <> [] ->
  let grid := param_grid ms dm in
  let '(best, final, scores) := spline_cv M fitp predict mt ms dm splits ds in
  scores = map (fun p => qmean (cross_val_score M (fitp p) predict mt splits ds)) grid /\
  final = fitp best ds /\
  exists i, (i < length grid)%nat /\ best = nth i grid (0, 0) /\
    (forall j, (j < length grid)%nat -> nth j scores 0 <= nth i scores 0) /\
    (forall j, (j < i)%nat -> nth j scores 0 < nth i scores 0).
Proof. exact splinecv_selects_best. Qed.
Print Assumptions C12_splinecv_selects_best.

(** ** the default metric *)
(** a perfect prediction scores 1 *)
Theorem C12_r2_perfect : forall w y, r2 w y y == 1.
Proof. exact r2_perfect. Qed.
Print Assumptions C12_r2_perfect.

(** for non-constant data R2 is 1 - weighted squared error / weighted variance about the weighted mean *)
Theorem C12_r2_formula : forall w y yhat, ~ r2_den w y == 0 ->
  r2 (Some w) y yhat ==
  1 - wsum w (sqerr y yhat) / wsum w (map (fun a => (a - wsum w y / qsum w) * (a - wsum w y / qsum w)) y).
Proof. exact r2_formula. Qed.
Print Assumptions C12_r2_formula.

(** rescaling all weights does not change R2 *)
Theorem C12_r2_weight_scale : forall c w y yhat, ~ c == 0 ->
  r2 (Some (map (Qmult c) w)) y yhat == r2 (Some w) y yhat.
Proof. exact r2_weight_scale. Qed.
Print Assumptions C12_r2_weight_scale.

(** ** non-vacuity *)
(** a toy estimator: the fitted state is the weighted-or-not mean of the first
    data component of the rows it was given; it predicts that constant *)
Definition toy_fit (d : dataset) : Q := qmean (hd [] (ds_data d)).
Definition toy_predict (m : Q) (c : tuple) : tuple := [map (fun _ => m) (hd [] c)].
Definition toy_ds : dataset :=
  {| ds_coords := [[0; 1; 2; 3; 4; 5]]; ds_data := [[1; 3; 2; 7; 5; 4]]; ds_weights := Some [[1; 2; 1; 2; 1; 2]] |}.
Definition toy_splits : list (list nat * list nat) := [([0; 1; 2; 3], [4; 5]); ([2; 3; 4; 5], [0; 1]); ([0; 1; 4; 5], [2; 3])]%nat.

(** scores are non-trivial, and changing a row outside train and test of split k ... there is none for
    a 3-fold split; changing a TEST row's data changes score 0 (so the premise of noninterference matters) *)
Example C12_nv_scores :
  map Qred (cross_val_score Q toy_fit toy_predict r2 toy_splits toy_ds) = [(-169 # 32); (-169 # 32); (-25 # 32)]%Q.
Proof. vm_compute. reflexivity. Qed.

Example C12_nv_rows_agree :
  let ds' := {| ds_coords := ds_coords toy_ds; ds_data := [[1; 3; 100; 100; 5; 4]]; ds_weights := ds_weights toy_ds |} in
  rows_agree [0; 1; 4; 5]%nat toy_ds ds' /\ ~ rows_agree [2; 3]%nat toy_ds ds'.
Proof.
  cbn zeta. split.
  - repeat split; intros j i Hi; cbn in Hi;
      destruct Hi as [<-|[<-|[<-|[<-|[]]]]]; destruct j as [|[|j]]; reflexivity.
  - intros (_ & (_ & H) & _). specialize (H 0%nat 2%nat (or_introl eq_refl)). cbn in H. discriminate.
Qed.

(** without clones (every task fits the object that was passed in) an
    interleaved schedule gives other scores than the serial loop, and the
    object passed in ends up fitted: the clone per split is what the theorem needs *)
Example C12_nv_inplace_differs :
  let h := [{| o_params := tt; o_state := None |}] in
  let evs := [EFit 0; EFit 1; EScore 0; EScore 1; EFit 2; EScore 2]%nat in
  let run := cvs_heap_inplace unit Q (fun _ => toy_fit) toy_predict r2 h 0 toy_ds toy_splits in
  fit_before_score [] evs /\
  snd (run evs) <> snd (run (serial_events 3)) /\
  nth_error (fst (run (serial_events 3))) 0 <> nth_error h 0 /\
  snd (cvs_heap unit Q (fun _ => toy_fit) toy_predict r2 h 0 tt toy_ds toy_splits evs) =
  snd (cvs_heap unit Q (fun _ => toy_fit) toy_predict r2 h 0 tt toy_ds toy_splits (serial_events 3)).
Proof.
  cbn zeta. split; [cbn; tauto|]. split; [|split].
  - vm_compute. intros H. discriminate H.
  - vm_compute. intros H. discriminate H.
  - vm_compute. reflexivity.
Qed.

(** SplineCV on a toy family: the fitted state is mindist + damping times the data mean *)
Example C12_nv_argmax : argmax_first [1; 3; 2; 3] = 1%nat /\ param_grid [1; 2] [5; 6; 7] = [(1, 5); (1, 6); (1, 7); (2, 5); (2, 6); (2, 7)].
Proof. split; reflexivity. Qed.

(** the premises of r2_formula and tts_complementary are satisfiable *)
Example C12_nv_r2_den : ~ r2_den [1; 2] [1; 3] == 0.
Proof. vm_compute. discriminate. Qed.

Example C12_nv_split : Permutation (fst ([2; 0], [3; 1])%nat ++ snd ([2; 0], [3; 1])%nat) (seq 0 4).
Proof.
  cbn. apply NoDup_Permutation.
  - repeat constructor; cbn; intuition discriminate.
  - repeat constructor; cbn; intuition discriminate.
  - intros x. cbn. intuition.
Qed.
