(** C05  grid / profile / scatter place each prediction at the right
    coordinate.  Statements only; proofs in Proofs/GridderProofs.v.
    [f] is an arbitrary point-wise predictor returning the tuple of components;
    projections are arbitrary functions on points. *)
From Coq Require Import QArith ZArith List Bool String.
From Verde Require Import Lib.QExtra Model.Coordinates Model.Gridder Proofs.GridderProofs.
Import ListNotations.
Open Scope Q_scope.

(** grid(): coordinate vectors are exactly those of grid_coordinates for the
    requested region/shape/spacing/adjust/pixel_register (region defaulting to
    region_); the value at row i, column j of each variable is the prediction
    at (easting[j], northing[i]) - projected when a projection is given, while
    the stored coordinates stay unprojected; dims, variable and
    extra-coordinate names follow the arguments or the documented defaults *)
Theorem C05_grid_from_region : forall (f : point -> list Q) ncomp region_ region shape spacing adjust pixel extra proj dims names xname ds,
  grid f ncomp region_ region shape spacing adjust pixel extra None proj dims names xname = Some ds ->
  exists r g,
    (match region with Some r0 => r = r0 | None => region_ = Some r end) /\
    grid_coordinates r shape spacing adjust pixel extra true = Some g /\
    (g_east1 g <> [] -> g_north1 g <> [] ->
       ds_east ds = g_east1 g /\ ds_north ds = g_north1 g) /\
    ds_dims ds = (match dims with Some d => d | None => ("northing", "easting")%string end) /\
    Some (map fst (ds_vars ds)) = get_data_names ncomp names /\
    List.length (ds_vars ds) = ncomp /\
    map fst (ds_extra ds) = extra_names xname (List.length (g_extra g)) /\
    map snd (ds_extra ds) = g_extra g /\
    forall k name rows, nth_error (ds_vars ds) k = Some (name, rows) ->
      List.length rows = List.length (g_north1 g) /\
      forall i j, (i < List.length (g_north1 g))%nat -> (j < List.length (g_east1 g))%nat ->
        List.length (nth i rows []) = List.length (g_east1 g) /\
        nth j (nth i rows []) 0 =
        nth k (f ((match proj with Some p => p | None => fun x => x end)
                    (nth j (g_east1 g) 0, nth i (g_north1 g) 0))) 0.
Proof. exact grid_from_region. Qed.
Print Assumptions C05_grid_from_region.

(** explicit 1-D grid coordinates *)
Theorem C05_grid_from_vectors : forall (f : point -> list Q) ncomp region_ adjust pixel extra e n proj dims names xname ds,
  e <> [] -> n <> [] ->
  grid f ncomp region_ None None None adjust pixel extra (Some (Coords1 e n)) proj dims names xname = Some ds ->
  ds_east ds = e /\ ds_north ds = n /\
  forall k name rows, nth_error (ds_vars ds) k = Some (name, rows) ->
    forall i j, (i < List.length n)%nat -> (j < List.length e)%nat ->
      nth j (nth i rows []) 0 =
      nth k (f ((match proj with Some p => p | None => fun x => x end) (nth j e 0, nth i n 0))) 0.
Proof. exact grid_from_vectors. Qed.
Print Assumptions C05_grid_from_vectors.

Theorem C05_grid_arg_errors : forall (f : point -> list Q) ncomp region_ region shape spacing adjust pixel extra c proj dims names xname,
  (shape <> None \/ spacing <> None ->
     grid f ncomp region_ region shape spacing adjust pixel extra (Some c) proj dims names xname = None) /\
  (region <> None ->
     grid f ncomp region_ region shape spacing adjust pixel extra (Some c) proj dims names xname = None) /\
  grid f ncomp None None shape spacing adjust pixel extra None proj dims names xname = None /\
  (forall l, List.length l <> ncomp ->
     grid f ncomp region_ region shape spacing adjust pixel extra None proj dims (Some l) xname = None).
Proof. exact grid_arg_errors. Qed.
Print Assumptions C05_grid_arg_errors.

(** profile(): size points evenly spaced on the (projected) segment with their
    Cartesian distance from the first point, coordinates mapped back *)
Theorem C05_profile_rows : forall (f : point -> list Q) p1 p2 size proj inv, (2 <= size)%nat ->
  let pr := match proj with Some p => p | None => fun x => x end in
  let iv := match inv with Some p => p | None => fun x => x end in
  let rows := profile f p1 p2 size proj inv in
  List.length rows = size /\
  forall i, (i < size)%nat ->
    exists x y d2, nth i rows (0, 0, 0, []) = (snd (iv (x, y)), fst (iv (x, y)), d2, f (x, y)) /\
      let t := inject_Z (Z.of_nat i) / inject_Z (Z.of_nat (size - 1)) in
      x == fst (pr p1) + t * (fst (pr p2) - fst (pr p1)) /\
      y == snd (pr p1) + t * (snd (pr p2) - snd (pr p1)) /\
      d2 == t * t * ((fst (pr p2) - fst (pr p1)) * (fst (pr p2) - fst (pr p1)) +
                     (snd (pr p2) - snd (pr p1)) * (snd (pr p2) - snd (pr p1))).
Proof. exact profile_rows. Qed.
Print Assumptions C05_profile_rows.

(** scatter(): predictions at the scatter points (projected for predicting only) *)
Theorem C05_scatter_rows : forall (f : point -> list Q) pts proj i, (i < List.length pts)%nat ->
  List.length (scatter f pts proj) = List.length pts /\
  nth i (scatter f pts proj) (0, 0, []) =
  (snd (nth i pts (0, 0)), fst (nth i pts (0, 0)),
   f ((match proj with Some p => p | None => fun x => x end) (nth i pts (0, 0)))).
Proof. exact scatter_rows. Qed.
Print Assumptions C05_scatter_rows.

(** non-vacuity: a 2 x 3 grid of an asymmetric function *)
Example C05_nv :
  option_map (fun ds => (ds_east ds, ds_north ds, map snd (ds_vars ds)))
    (grid (fun p => [10 * fst p + snd p]) 1 None (Some [0; 2; 0; 1]) (Some (2, 3)%Z) None 0 false None None None None None "extra_coord")
  = Some ([0 + 0 * ((2 - 0) / 2); 0 + 1 * ((2 - 0) / 2); 0 + 2 * ((2 - 0) / 2)],
          [0 + 0 * ((1 - 0) / 1); 0 + 1 * ((1 - 0) / 1)],
          [[[10 * (0 + 0 * ((2 - 0) / 2)) + (0 + 0 * ((1 - 0) / 1));
             10 * (0 + 1 * ((2 - 0) / 2)) + (0 + 0 * ((1 - 0) / 1));
             10 * (0 + 2 * ((2 - 0) / 2)) + (0 + 0 * ((1 - 0) / 1))];
            [10 * (0 + 0 * ((2 - 0) / 2)) + (0 + 1 * ((1 - 0) / 1));
             10 * (0 + 1 * ((2 - 0) / 2)) + (0 + 1 * ((1 - 0) / 1));
             10 * (0 + 2 * ((2 - 0) / 2)) + (0 + 1 * ((1 - 0) / 1))]]]).
Proof. reflexivity. Qed.
