(** C20  Calls are pure, repeatable, history-free and reject inconsistent
    input.  Statements only; proofs in Proofs/ChecksProofs.v,
    Proofs/FramesProofs.v, Proofs/EffectsProofs.v.

    (d) argument checks: exact characterisations over abstract arguments
        (arrays = shapes).
    (b) history-freedom: for every estimator class whose regenerated frame IR
        passes [analyse] (one generated obligation per class per run).
    (a) purity: for every callable whose regenerated effect IR has
        [mutated_params = []] (one generated obligation per callable per run).
    (c) repeatability is differential only. *)
From Coq Require Import List Bool Arith ZArith QArith String.
From Verde Require Import Lib.Verdict Lib.Dyadic Model.Checks Model.Frames Model.Effects
  Proofs.ChecksProofs Proofs.FramesProofs Proofs.EffectsProofs.
Import ListNotations.
Close Scope Q_scope.

(** ---------------- (d) rejection of inconsistent input ---------------- *)

(** check_fit_input returns normally exactly when: all coordinate arrays have
    one shape; every data component has that shape; weights are all None, or
    there is one per data component, each with the component's shape or its
    raveled 1-D form (a None among arrays counting as a 0-d array) *)
Theorem C20_check_fit_input_iff : forall coords data weights,
  check_fit_input coords data weights = true <-> fit_input_consistent coords data weights.
Proof. exact check_fit_input_iff. Qed.
Print Assumptions C20_check_fit_input_iff.

(** every strictly consistent input (each weight an aligned array) is accepted *)
Theorem C20_strict_accepted : forall coords data weights,
  fit_input_consistent_strict coords data weights -> check_fit_input coords data weights = true.
Proof. exact strict_accepted. Qed.
Print Assumptions C20_strict_accepted.

(** every accepted weight array is aligned element by element with every data
    component: same shape or the raveled form (size-only matches are rejected) *)
Theorem C20_accepted_weights_aligned : forall coords data weights ws dd,
  check_fit_input coords data weights = true -> In (Some ws) weights -> In dd data -> weight_fits ws dd.
Proof. exact accepted_weights_aligned. Qed.
Print Assumptions C20_accepted_weights_aligned.

(** the only input accepted beyond the strict specification: a None among
    weight arrays when every data component is 0-dimensional *)
Theorem C20_fit_input_gap : forall coords data weights,
  check_fit_input coords data weights = true -> fit_input_strict coords data weights = false ->
  In None weights /\ existsb is_some weights = true /\ forall dd, In dd data -> dd = [].
Proof. exact fit_input_gap. Qed.
Print Assumptions C20_fit_input_gap.

Theorem C20_check_coordinates_iff : forall coords, check_coordinates coords = true <-> same_shapes coords.
Proof. exact check_coordinates_iff. Qed.
Print Assumptions C20_check_coordinates_iff.

Theorem C20_check_data_names_iff : forall ndata names, check_data_names ndata names = true <-> names = Some ndata.
Proof. exact check_data_names_iff. Qed.
Print Assumptions C20_check_data_names_iff.

Theorem C20_check_extra_coords_names_iff : forall ncoords names,
  check_extra_coords_names ncoords names = true <-> names = Some (ncoords - 2).
Proof. exact check_extra_coords_names_iff. Qed.
Print Assumptions C20_check_extra_coords_names_iff.

Theorem C20_check_region_iff : forall r, check_region r = true <-> region_valid r.
Proof. exact check_region_iff. Qed.
Print Assumptions C20_check_region_iff.

(** on exact doubles there is no tolerance: W <= E and S <= N as real numbers *)
Theorem C20_check_region_d_iff : forall r, check_region_d r = true <-> region_valid_d r.
Proof. exact check_region_d_iff. Qed.
Print Assumptions C20_check_region_d_iff.

(** exactly one of shape and spacing *)
Theorem C20_one_of_iff : forall shape_given spacing_given,
  one_of shape_given spacing_given = true <->
  (shape_given = true /\ spacing_given = false) \/ (shape_given = false /\ spacing_given = true).
Proof. exact one_of_iff. Qed.
Print Assumptions C20_one_of_iff.

Theorem C20_grid_args_iff : forall r sh sp,
  grid_args r sh sp = true <->
  region_valid r /\ ((sh = true /\ sp = None) \/ (sh = false /\ exists n, sp = Some n /\ n <= 2)).
Proof. exact grid_args_iff. Qed.
Print Assumptions C20_grid_args_iff.

Theorem C20_vectorspline_fit_iff : forall c d w,
  vectorspline_fit c d w = true <-> fit_input_consistent c d w /\ List.length d = 2.
Proof. exact vectorspline_fit_iff. Qed.
Print Assumptions C20_vectorspline_fit_iff.

(** Vector.fit: consistent input and one data component per estimator *)
Theorem C20_vector_fit_iff : forall n c d w,
  vector_fit n c d w = true <-> fit_input_consistent c d w /\ List.length d = n.
Proof. exact vector_fit_iff. Qed.
Print Assumptions C20_vector_fit_iff.

(** what an [ok] verdict of the malformed stream means *)
Theorem C20_check_case_ok : forall c obs,
  c20_check_case c obs = Vok -> Checks.run c = obs /\ (consistentb c = false -> obs = false).
Proof. exact c20_check_case_ok. Qed.
Print Assumptions C20_check_case_ok.

(** ---------------- (b) history-freedom ---------------- *)

(** after fit, the constructor attributes and everything fit may write depend
    only on the constructor attributes and the arguments; nothing else changes *)
Theorem C20_frame_noninterference : forall o C c, fit C = Some c -> fit_ok C = true ->
  forall D M, chk (ctor_attrs C) (memo C) c (ctor_attrs C) = Some (D, M) ->
  forall (s1 s2 : state) (arg : V), agree (ctor_attrs C) s1 s2 ->
  match call_state o c s1 arg, call_state o c s2 arg with
  | Some t1, Some t2 =>
      agree D t1 t2 /\ (forall a, mem a M = true -> t1 a = t2 a) /\
      (forall a, mem a M = false -> mem a (memo C) = false -> t1 a = s1 a /\ t2 a = s2 a)
  | None, None => True
  | _, _ => False
  end.
Proof. exact frame_noninterference. Qed.
Print Assumptions C20_frame_noninterference.

(** any sequence of successful fits leaves the estimator in exactly the state
    of the fresh estimator fitted to the last data set *)
Theorem C20_refit_like_fresh : forall o C c, fit C = Some c -> fit_ok C = true ->
  forall s0 : state, (forall a, mem a (memo C) = true -> s0 a <> Some 0) ->
  forall ds d sN, fits o c s0 (ds ++ [d]) = Some sN ->
  exists sF, call_state o c s0 d = Some sF /\ forall a, sN a = sF a.
Proof. exact refit_like_fresh. Qed.
Print Assumptions C20_refit_like_fresh.

(** VectorSpline2D: write-once parameters left None at construction are filled
    by the first fit; afterwards the estimator is in the state of a fresh one
    constructed with those values and fitted to the last data set *)
Theorem C20_refit_memo : forall o C c, fit C = Some c -> fit_ok C = true ->
  forall (s0 : state) (d1 : V) (s1 : state), call_state o c s0 d1 = Some s1 ->
  (forall a, mem a (memo C) = true -> s1 a <> Some 0) ->
  forall ds d sN, fits o c s1 (ds ++ [d]) = Some sN ->
  exists sF, call_state o c (with_memo C s0 s1) d = Some sF /\ forall a, sN a = sF a.
Proof. exact refit_memo. Qed.
Print Assumptions C20_refit_memo.

(** ... hence every method returns the same from both *)
Theorem C20_same_state_same_result : forall o p (s1 s2 : state) (arg : V),
  (forall a, s1 a = s2 a) -> call_result o p s1 arg = call_result o p s2 arg.
Proof. exact same_state_same_result. Qed.
Print Assumptions C20_same_state_same_result.

Theorem C20_predict_unfitted_errors : forall o C p f (s : state) (arg : V),
  predict C = Some p -> fit C = Some f -> predict_ok C = true -> fresh C s -> Frames.call o p s arg = None.
Proof. exact predict_unfitted_errors. Qed.
Print Assumptions C20_predict_unfitted_errors.

Theorem C20_reader_pure : forall o C r (s : state) (arg : V) (s' : state) l k,
  reader_ok C r = true -> Frames.call o r s arg = Some (s', l, k) -> forall a, s' a = s a.
Proof. exact reader_pure. Qed.
Print Assumptions C20_reader_pure.

Theorem C20_reader_depends_on_fitted_only : forall o C r D M (s1 s2 : state) (arg : V),
  fit_sets C = Some (D, M) -> reader_ok C r = true -> agree D s1 s2 ->
  call_result o r s1 arg = call_result o r s2 arg.
Proof. exact reader_depends_on_fitted_only. Qed.
Print Assumptions C20_reader_depends_on_fitted_only.

(** constructors only store: a new estimator has exactly the constructor
    attributes, each parameter holds its argument (or the documented non-None
    default for a None argument), and get_params -> constructor is the identity *)
Theorem C20_init_fresh : forall konst compute C args,
  init_ok C = true -> fresh C (init_state konst compute (init C) args).
Proof. exact init_fresh. Qed.
Print Assumptions C20_init_fresh.

Theorem C20_init_stores : forall konst compute C args a, init_ok C = true -> mem a (params C) = true ->
  init_state konst compute (init C) args a = Some (args a) \/
  (args a = 0 /\ init_state konst compute (init C) args a = Some (konst a)).
Proof. exact init_stores. Qed.
Print Assumptions C20_init_stores.

Theorem C20_clone_roundtrip : forall konst compute, (forall a, konst a <> 0) ->
  forall C args, init_ok C = true ->
  let s := init_state konst compute (init C) args in
  forall a, init_state konst compute (init C) (get_params s) a = s a.
Proof. exact clone_roundtrip. Qed.
Print Assumptions C20_clone_roundtrip.

(** ---------------- (a) arguments are not modified ---------------- *)

Theorem C20_effects_sound : forall p e0 h0 n0,
  (forall x, nparams p <= x -> e0 x = []) ->
  (forall k, In k (mutated_params p) -> k < nparams p) ->
  forall e h n, Effects.run p (e0, h0, n0) (e, h, n) ->
  forall b, b < n0 -> (forall k, In k (mutated_params p) -> ~ In b (e0 k)) -> h b = h0 b.
Proof. exact effects_sound. Qed.
Print Assumptions C20_effects_sound.

(** the generated obligation [mutated_params prog_f = []] therefore means: on
    every path, no array that existed before the call is changed *)
Theorem C20_pure_function : forall p e0 h0 n0,
  (forall x, nparams p <= x -> e0 x = []) -> mutated_params p = [] ->
  forall e h n, Effects.run p (e0, h0, n0) (e, h, n) -> forall b, b < n0 -> h b = h0 b.
Proof. exact pure_function. Qed.
Print Assumptions C20_pure_function.

Theorem C20_alias_sound : forall p x e0 h0 n0,
  (forall y, nparams p <= y -> e0 y = []) ->
  (forall k, In k (aliases_of p x) -> k < nparams p) ->
  forall e h n, Effects.run p (e0, h0, n0) (e, h, n) ->
  forall b, In b (e x) -> b < n0 -> exists k, In k (aliases_of p x) /\ In b (e0 k).
Proof. exact alias_sound. Qed.
Print Assumptions C20_alias_sound.

(** ---------------- non-vacuity ---------------- *)
Open Scope string_scope.
(* (2,3) data: (3,2) weights are rejected, (2,3) and raveled (6) weights accepted; a surplus component is rejected *)
Example C20_nv_weights : check_fit_input [[2;3];[2;3]] [[2;3]] [Some [3;2]] = false /\
                         check_fit_input [[2;3];[2;3]] [[2;3]] [Some [2;3]] = true /\
                         check_fit_input [[2;3];[2;3]] [[2;3]] [Some [6]] = true /\
                         vector_fit 2 [[4];[4]] [[4];[4];[4]] [None;None;None] = false /\
                         vector_fit 2 [[4];[4]] [[4];[4]] [None;None] = true.
Proof. repeat split; reflexivity. Qed.
Example C20_nv_reject : check_fit_input [[4];[5]] [[4]] [None] = false /\ check_fit_input [[4];[4]] [[4]] [Some [4]] = true.
Proof. split; reflexivity. Qed.
(* W one part in 2^34 above E at 5e5 (1 ulp) is rejected, W = E accepted *)
Example C20_nv_region_ulp :
  check_region_d [(500000 * 2^34 + 1, -34); (500000, 0); (0, 0); (1, 0)]%Z = false /\
  check_region_d [(500000, 0); (500000, 0); (0, 0); (1, 0)]%Z = true.
Proof. split; reflexivity. Qed.
(* a class in the shape of verde.Spline passes; reading a fitted attribute in fit, a
   computing constructor, a predict without guard do not *)
Definition nv_spline : cls := {| params := ["damping"; "force_coords"]; memo := [];
  init := [IStore "damping"; IStore "force_coords"];
  fit := Some (seq [Wr "region_"; Rd "force_coords"; Ite (Wr "force_coords_") (seq [Rd "force_coords"; Wr "force_coords_"]);
                    Rd "force_coords_"; Rd "damping"; Wr "force_"]);
  predict := Some (seq [Guard ["force_"]; Rd "force_coords_"; Rd "force_"]); readers := [] |}.
Example C20_nv_frames : analyse nv_spline = true.
Proof. reflexivity. Qed.
Example C20_nv_frames_history : analyse {| params := params nv_spline; memo := []; init := init nv_spline;
  fit := Some (seq [Has "force_"; Wr "force_"]); predict := predict nv_spline; readers := [] |} = false.
Proof. reflexivity. Qed.
Example C20_nv_frames_init : analyse {| params := params nv_spline; memo := []; init := [IBad "damping"; IStore "force_coords"];
  fit := fit nv_spline; predict := predict nv_spline; readers := [] |} = false.
Proof. reflexivity. Qed.
Example C20_nv_frames_guard : analyse {| params := params nv_spline; memo := []; init := init nv_spline;
  fit := fit nv_spline; predict := Some (seq [Rd "force_coords_"; Rd "force_"]); readers := [] |} = false.
Proof. reflexivity. Qed.
(* effect analysis: x := asarray(p0); x += 1  mutates p0;  x := p0.copy(); x += 1  does not *)
Example C20_nv_effects : mutated_params {| nparams := 2; body := [Alias 2 [0]; Inplace 2] |} = [0] /\
                         mutated_params {| nparams := 2; body := [Fresh 2; Inplace 2; Alias 3 [1; 2]] |} = [].
Proof. split; reflexivity. Qed.
