(** C19  load_surfer returns the file's grid faithfully or refuses it.
    Statements only; proofs are in Proofs/SurferProofs.v, the model in
    Model/Surfer.v.

    A file is the list of its lines.  [pint], [pflt], [pval] are the
    conversions of one token to a number (Python [int], Python [float], and
    loadtxt's conversion in the requested dtype); every theorem holds for
    arbitrary such functions.  [read_lines fileattr dt f] is the body of the
    [try] block of load_surfer on the lines [f]; [load_surfer fs src dt] the
    whole function on a path (looked up in the file system [fs]) or on a
    caller's file object, with the handles it leaves behind. *)
From Coq Require Import ZArith QArith Qabs String Ascii List Bool.
From Verde Require Import Lib.Dyadic Model.Surfer Proofs.SurferProofs.
Import ListNotations.
Open Scope string_scope.

(** ** Soundness: no input yields a grid that differs from the file.
    If a grid is returned then the header reads as [nr nc / s n / w e / rng]
    with nr, nc >= 2, the body is exactly nr non-empty lines of nc numbers
    (one grid row per line), the header's data range agrees with the body,
    and the grid has: the values row by row in file order with exactly the
    blanks (>= threshold in the dtype) masked, the linspace coordinates of
    the header ranges (northing from the first range line, easting from the
    second), the stripped first line as id, the path (if any) as [file],
    dims (northing, easting) and the requested dtype. *)
Theorem C19_load_sound : forall pint pflt pval fileattr dt f g,
  read_lines pint pflt pval fileattr dt f = Ok g ->
  exists nr nc s n w e rng rows,
    (2 <= nr)%nat /\ (2 <= nc)%nat /\
    header_is pint pflt f nr nc s n w e rng /\
    body_is pval f rows /\ has_shape rows nr nc /\
    range_agrees dt rows rng /\
    g_vals g = map (map (mask dt)) rows /\
    g_north g = linspace (D2Q s) (D2Q n) nr /\
    g_east g = linspace (D2Q w) (D2Q e) nc /\
    g_id g = strip (line f 0) /\
    g_file g = fileattr /\
    g_dims g = ["northing"; "easting"] /\
    g_dtype g = dt.
Proof. exact load_sound. Qed.
Print Assumptions C19_load_sound.

(** cell by cell *)
Theorem C19_load_cells : forall pint pflt pval fileattr dt f g,
  read_lines pint pflt pval fileattr dt f = Ok g ->
  exists rows, body_is pval f rows /\
    forall i j, nth j (nth i (g_vals g) []) NaN =
                match nth_error rows i with
                | Some r => match nth_error r j with Some v => mask dt v | None => NaN end
                | None => NaN
                end.
Proof. exact load_cells. Qed.
Print Assumptions C19_load_cells.

(** a cell of a returned grid is NaN exactly when the file's number is a blank *)
Theorem C19_blank_iff_nan : forall dt rows rng v,
  range_agrees dt rows rng -> In v (concat rows) ->
  (mask dt v = NaN <-> is_blank dt v = true).
Proof. exact blank_iff_nan. Qed.
Print Assumptions C19_blank_iff_nan.

Theorem C19_is_blank_spec : forall dt d,
  is_blank dt (Fin d) = true <-> (D2Q (thr dt) <= D2Q d)%Q.
Proof. exact is_blank_spec. Qed.
Print Assumptions C19_is_blank_spec.

(** ** Completeness: every well-formed file (at least 2 x 2, one grid row per
    line, header agreeing with the body) loads, and to this grid *)
Theorem C19_load_complete : forall pint pflt pval fileattr dt f nr nc s n w e rng rows,
  (2 <= nr)%nat -> (2 <= nc)%nat ->
  header_is pint pflt f nr nc s n w e rng ->
  body_is pval f rows -> has_shape rows nr nc ->
  range_agrees dt rows rng ->
  read_lines pint pflt pval fileattr dt f =
    Ok {| g_vals := map (map (mask dt)) rows;
          g_north := linspace (D2Q s) (D2Q n) nr;
          g_east := linspace (D2Q w) (D2Q e) nc;
          g_id := strip (line f 0);
          g_file := fileattr;
          g_dims := ["northing"; "easting"];
          g_dtype := dt |}.
Proof. exact load_complete. Qed.
Print Assumptions C19_load_complete.

(** ** Refusal *)

(** body not [nr] lines of [nc] numbers - too few / too many lines or columns,
    wrapped rows, ragged rows: IOError for a rectangle of the wrong shape,
    loadtxt's ValueError for ragged rows; never a grid *)
Theorem C19_load_refuses_shape : forall pint pflt pval fileattr dt f nr nc s n w e rng rows,
  header_is pint pflt f nr nc s n w e rng -> body_is pval f rows ->
  ~ has_shape rows nr nc ->
  read_lines pint pflt pval fileattr dt f = Err (if rect rows then EIO else EValue).
Proof. exact load_refuses_shape. Qed.
Print Assumptions C19_load_refuses_shape.

Theorem C19_load_refuses_wrapped : forall pint pflt pval fileattr dt f nr nc s n w e rng rows r,
  header_is pint pflt f nr nc s n w e rng -> body_is pval f rows ->
  In r rows -> length r <> nc ->
  exists err, read_lines pint pflt pval fileattr dt f = Err err.
Proof. exact load_refuses_wrapped. Qed.
Print Assumptions C19_load_refuses_wrapped.

Theorem C19_load_refuses_row_count : forall pint pflt pval fileattr dt f nr nc s n w e rng rows,
  header_is pint pflt f nr nc s n w e rng -> body_is pval f rows ->
  length rows <> nr ->
  exists err, read_lines pint pflt pval fileattr dt f = Err err.
Proof. exact load_refuses_row_count. Qed.
Print Assumptions C19_load_refuses_row_count.

(** header data range not allclose to the body's min / max of unmasked cells *)
Theorem C19_load_refuses_range : forall pint pflt pval fileattr dt f nr nc s n w e rng rows,
  header_is pint pflt f nr nc s n w e rng -> body_is pval f rows ->
  ~ range_agrees dt rows rng ->
  exists err, read_lines pint pflt pval fileattr dt f = Err err.
Proof. exact load_refuses_range. Qed.
Print Assumptions C19_load_refuses_range.

(** unreadable header / a body token that is not a number *)
Theorem C19_load_refuses_header : forall pint pflt pval fileattr dt f e,
  parse_header pint pflt f = Err e -> read_lines pint pflt pval fileattr dt f = Err e.
Proof. exact load_refuses_header. Qed.
Print Assumptions C19_load_refuses_header.

Theorem C19_load_refuses_token : forall pint pflt pval fileattr dt f h,
  parse_header pint pflt f = Ok h -> map_opt (map_opt pval) (body_rows f) = None ->
  read_lines pint pflt pval fileattr dt f = Err EValue.
Proof. exact load_refuses_token. Qed.
Print Assumptions C19_load_refuses_token.

(** ** What "agrees" means: allclose, min and max *)
Theorem C19_isclose_spec : forall a b,
  isclose (Fin a) (Fin b) = true <->
  (Qabs (D2Q a - D2Q b) <= atol + rtol * Qabs (D2Q b))%Q.
Proof. exact isclose_spec. Qed.
Print Assumptions C19_isclose_spec.

Theorem C19_field_min_spec : forall dt rows,
  Forall fin (unmasked dt rows) -> unmasked dt rows <> [] ->
  exists m, field_min dt rows = Fin m /\ In (Fin m) (unmasked dt rows) /\
            forall x, In (Fin x) (unmasked dt rows) -> (D2Q m <= D2Q x)%Q.
Proof. exact field_min_spec. Qed.
Print Assumptions C19_field_min_spec.

Theorem C19_field_max_spec : forall dt rows,
  Forall fin (unmasked dt rows) -> unmasked dt rows <> [] ->
  exists m, field_max dt rows = Fin m /\ In (Fin m) (unmasked dt rows) /\
            forall x, In (Fin x) (unmasked dt rows) -> (D2Q x <= D2Q m)%Q.
Proof. exact field_max_spec. Qed.
Print Assumptions C19_field_max_spec.

(** ** Coordinates: evenly spaced, spanning the header range *)
Theorem C19_linspace_length : forall a b n, length (linspace a b n) = n.
Proof. exact linspace_length. Qed.
Print Assumptions C19_linspace_length.

Theorem C19_linspace_first : forall a b n, (2 <= n)%nat -> (nth 0 (linspace a b n) 0 == a)%Q.
Proof. exact linspace_first. Qed.
Print Assumptions C19_linspace_first.

Theorem C19_linspace_last : forall a b n, (2 <= n)%nat -> (nth (n - 1) (linspace a b n) 0 == b)%Q.
Proof. exact linspace_last. Qed.
Print Assumptions C19_linspace_last.

Theorem C19_linspace_step : forall a b n i, (2 <= n)%nat -> (S i < n)%nat ->
  (nth (S i) (linspace a b n) 0 - nth i (linspace a b n) 0 == (b - a) / inject_Z (Z.of_nat (n - 1)))%Q.
Proof. exact linspace_step. Qed.
Print Assumptions C19_linspace_step.

(** ** Whitespace: the tokeniser returns the tokens whatever the amount and
    kind of whitespace before, between and after them; strip removes exactly
    the surrounding whitespace *)
Theorem C19_split_ws_join : forall sep0 l,
  all_ws sep0 = true -> well_separated l ->
  split_ws (sep0 ++ join_ws l) = map fst l.
Proof. exact split_ws_join. Qed.
Print Assumptions C19_split_ws_join.

Theorem C19_strip_spec : forall a s b,
  all_ws a = true -> all_ws b = true ->
  match s with EmptyString => True | String c _ => is_ws c = false end -> ends_nonws s ->
  strip (a ++ s ++ b) = s.
Proof. exact strip_spec. Qed.
Print Assumptions C19_strip_spec.

(** ** Path or file object, and the handles *)
Theorem C19_load_surfer_result : forall pint pflt pval fs src dt,
  o_result (load_surfer pint pflt pval fs src dt) =
  match src with
  | Path p => match fs p with
              | None => Err EIO
              | Some c => read_lines pint pflt pval (Some (FStr p)) dt c
              end
  | PathObj p => match fs p with
                 | None => Err EIO
                 | Some c => read_lines pint pflt pval (Some (FPathObj p)) dt c
                 end
  | FileObj h => match hd_state h with
                 | Closed => Err EValue
                 | Opened => read_lines pint pflt pval None dt (hd_lines h)
                 end
  end.
Proof. exact load_surfer_result. Qed.
Print Assumptions C19_load_surfer_result.

(** the metadata is part of what is returned: the [file] attribute of a grid
    loaded from the string [p] is [p] itself, for EVERY string - no
    normalisation of "./x", "a//b", "a/./b", "a/../a/b", relative or absolute;
    from a pathlib.Path it is that Path object; from a file object there is
    no [file] attribute *)
Theorem C19_file_attr_is_given : forall pint pflt pval fs p dt g,
  o_result (load_surfer pint pflt pval fs (Path p) dt) = Ok g -> g_file g = Some (FStr p).
Proof. exact file_attr_is_given. Qed.
Print Assumptions C19_file_attr_is_given.

Theorem C19_file_attr_pathobj : forall pint pflt pval fs p dt g,
  o_result (load_surfer pint pflt pval fs (PathObj p) dt) = Ok g -> g_file g = Some (FPathObj p).
Proof. exact file_attr_pathobj. Qed.
Print Assumptions C19_file_attr_pathobj.

Theorem C19_file_attr_fileobj : forall pint pflt pval fs h dt g,
  o_result (load_surfer pint pflt pval fs (FileObj h) dt) = Ok g -> g_file g = None.
Proof. exact file_attr_fileobj. Qed.
Print Assumptions C19_file_attr_fileobj.

Theorem C19_path_equals_fileobj : forall pint pflt pval fs p c dt,
  fs p = Some c ->
  o_result (load_surfer pint pflt pval fs (Path p) dt) =
  map_result (with_file (Some (FStr p)))
    (o_result (load_surfer pint pflt pval fs (FileObj {| hd_lines := c; hd_state := Opened |}) dt)) /\
  o_result (load_surfer pint pflt pval fs (PathObj p) dt) =
  map_result (with_file (Some (FPathObj p)))
    (o_result (load_surfer pint pflt pval fs (FileObj {| hd_lines := c; hd_state := Opened |}) dt)).
Proof. exact path_equals_fileobj. Qed.
Print Assumptions C19_path_equals_fileobj.

(** on every input and every outcome (grid or error) the file the function
    opened - given as a string or as a Path - is closed, and it opened
    nothing else *)
Theorem C19_handle_closed : forall pint pflt pval fs src p dt,
  is_path src p ->
  match o_opened (load_surfer pint pflt pval fs src dt) with
  | Some h => hd_state h = Closed /\ fs p = Some (hd_lines h)
  | None => fs p = None
  end /\ o_given (load_surfer pint pflt pval fs src dt) = None.
Proof. exact handle_closed. Qed.
Print Assumptions C19_handle_closed.

(** no memory between calls: the outcome for a path depends only on what
    the path contains at the time of the call (overwrite the file and load
    again: the new file's grid or refusal), and it is the outcome for a file
    object on that content ([C19_path_equals_fileobj]) *)
Theorem C19_load_current_content : forall pint pflt pval fs1 fs2 src p dt,
  is_path src p -> fs1 p = fs2 p ->
  load_surfer pint pflt pval fs1 src dt = load_surfer pint pflt pval fs2 src dt.
Proof. exact load_current_content. Qed.
Print Assumptions C19_load_current_content.

Theorem C19_fileobj_untouched : forall pint pflt pval fs h dt,
  o_opened (load_surfer pint pflt pval fs (FileObj h) dt) = None /\
  o_given (load_surfer pint pflt pval fs (FileObj h) dt) = Some h.
Proof. exact fileobj_untouched. Qed.
Print Assumptions C19_fileobj_untouched.

(** ** The decidable statement evaluated by the generated cases
    ([surfer_holds], Model/Surfer.v) against the theorems: a file it calls
    well-formed loads; an observed output that agrees with the model (same
    Ok / error class, values, coordinates within tolerance, attributes,
    handle states) satisfies it.  So a reported violation is a behaviour that
    the model - about which everything above is proved - does not have. *)
Theorem C19_well_formed_loads : forall pint pflt pval fileattr dt f,
  well_formed pint pflt pval dt f = Yes ->
  exists g, read_lines pint pflt pval fileattr dt f = Ok g.
Proof. exact well_formed_loads. Qed.
Print Assumptions C19_well_formed_loads.

Theorem C19_agree_implies_holds : forall pint pflt pval dt f src ob,
  outcome_agrees (load_surfer pint pflt pval (fst (model_source f src)) (snd (model_source f src)) dt) ob = true ->
  snd (surfer_holds pint pflt pval dt f src ob) = true.
Proof. exact agree_implies_holds. Qed.
Print Assumptions C19_agree_implies_holds.

(** which re-cuts of a body the decidable statement accepts when a grid is
    returned ([grid_is_file] uses [regroup nc [] rows]): one grid row per line
    is accepted as it is; an accepted regrouping is the file's values in file
    order in rows of [nc], each made of whole lines; a line longer than a grid
    row (row-per-line body under swapped counts or another factorisation with
    fewer columns) is never accepted *)
Theorem C19_regroup_rows : forall (nc : nat) (rows : list (list num)),
  (1 <= nc)%nat -> Forall (fun r => length r = nc) rows -> regroup nc [] rows = Some rows.
Proof. exact (@regroup_rows num). Qed.
Print Assumptions C19_regroup_rows.

Theorem C19_regroup_spec : forall (nc : nat) (rows : list (list num)) acc grows,
  regroup nc acc rows = Some grows ->
  concat grows = (acc ++ concat rows)%list /\ Forall (fun r => length r = nc) grows.
Proof. exact (@regroup_spec num). Qed.
Print Assumptions C19_regroup_spec.

Theorem C19_regroup_long_line : forall (nc : nat) (r : list num) t,
  (nc < length r)%nat -> regroup nc [] (r :: t) = None.
Proof. exact (@regroup_long_line num). Qed.
Print Assumptions C19_regroup_long_line.

(** ** Non-vacuity: a 2 x 3 file with irregular whitespace and one blank *)
Definition ex_int := lookup [("2", Some 2%Z); ("3", Some 3%Z); ("6", Some 6%Z)].
Definition ex_flt := lookup [("0", Some (Fin (0, 0)%Z)); ("1", Some (Fin (1, 0)%Z));
                             ("2", Some (Fin (1, 1)%Z)); ("5", Some (Fin (5, 0)%Z));
                             ("6", Some (Fin (3, 1)%Z))].
Definition ex_val := lookup [("1", Some (Fin (1, 0)%Z)); ("2", Some (Fin (1, 1)%Z));
                             ("3", Some (Fin (3, 0)%Z)); ("4", Some (Fin (1, 2)%Z));
                             ("5", Some (Fin (5, 0)%Z)); ("6", Some (Fin (3, 1)%Z));
                             ("1.70141e38", Some (Fin (2251797385606155, 76)%Z))].
Definition ex_rows : list (list num) :=
  [[Fin (1, 0)%Z; Fin (1, 1)%Z; Fin (3, 0)%Z]; [Fin (1, 2)%Z; Fin (5, 0)%Z; Fin (2251797385606155, 76)%Z]].
Definition ex_file : list string :=
  [" DSAA "; "2 3"; "0  1"; "0 " ++ ch 9 ++ "2"; "1 5"; "1 2 3"; ""; "  4" ++ ch 9 ++ "5   1.70141e38 "; ""].

Example C19_nv_hyps :
  header_is ex_int ex_flt ex_file 2 3 (0, 0)%Z (1, 0)%Z (0, 0)%Z (1, 1)%Z [Fin (1, 0)%Z; Fin (5, 0)%Z] /\
  body_is ex_val ex_file ex_rows /\ has_shape ex_rows 2 3 /\ range_agrees F64 ex_rows [Fin (1, 0)%Z; Fin (5, 0)%Z].
Proof.
  split; [repeat split; vm_compute; reflexivity|]. split; [vm_compute; reflexivity|].
  split; [split; [reflexivity|repeat constructor]|vm_compute; reflexivity].
Qed.

Example C19_nv_loads : exists g,
  read_lines ex_int ex_flt ex_val (Some (FStr "./grids//a.grd")) F64 ex_file = Ok g /\
  g_file g = Some (FStr "./grids//a.grd") /\
  g_vals g = [[Fin (1, 0)%Z; Fin (1, 1)%Z; Fin (3, 0)%Z]; [Fin (1, 2)%Z; Fin (5, 0)%Z; NaN]] /\
  g_id g = "DSAA" /\ length (g_north g) = 2%nat /\ length (g_east g) = 3%nat.
Proof. eexists. split; [vm_compute; reflexivity|]. repeat split. Qed.

(** the same numbers wrapped two per line, and a shifted data range, are refused *)
Example C19_nv_wrapped :
  read_lines ex_int ex_flt ex_val None F64
    [" DSAA "; "2 3"; "0  1"; "0 2"; "1 5"; "1 2"; "3 4"; "5 1.70141e38"] = Err EIO.
Proof. vm_compute. reflexivity. Qed.

Example C19_nv_range :
  read_lines ex_int ex_flt ex_val None F64
    [" DSAA "; "2 3"; "0  1"; "0 2"; "1 6"; "1 2 3"; "4 5 1.70141e38"] = Err EIO.
Proof. vm_compute. reflexivity. Qed.

Example C19_nv_ws : well_separated [("12", " " ++ ch 9); ("-3.5e2", "   "); ("7", "")] /\
  all_ws (ch 9 ++ " ") = true.
Proof. vm_compute. repeat split; discriminate. Qed.

(** the float64 threshold is the double nearest to 1.70141e38 (half an ulp is 2^73) *)
Example C19_nv_threshold :
  (Qabs (D2Q (thr F64) - inject_Z (170141 * 10 ^ 33)) <= inject_Z (2 ^ 73))%Q /\
  (D2Q (thr F64) <= D2Q (thr F32))%Q.
Proof. split; vm_compute; discriminate. Qed.

(** a grid row wrapped over two lines regroups; lines that straddle grid rows
    or hold several do not *)
Example C19_nv_regroup :
  regroup 3 [] [[1; 2]; [3]; [4; 5; 6]]%Z = Some [[1; 2; 3]; [4; 5; 6]]%Z /\
  regroup 3 [] [[1; 2]; [3; 4]; [5; 6]]%Z = None /\
  regroup 2 [] [[1; 2; 3; 4]; [5; 6; 7; 8]]%Z = None.
Proof. repeat split. Qed.
