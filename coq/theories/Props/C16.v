(** C16  Hull masking and grid projection keep values only where data constrain them.
    Statements only; proofs in Proofs/HullProofs.v and Proofs/ProjectGridProofs.v.

    Points are pairs of rationals.  [orient a b r] > 0 iff r is strictly left of
    the directed line a->b.  A pair of data points (a, b) is [supporting] when the
    whole cloud is left of or on a->b.  [in_hull P q]: q is left of or on every
    supporting line; [strictly_in_hull m] / [strictly_outside m]: by more than the
    margin m (in orientation units) - points that are neither are boundary points
    and may be masked either way.

    NOT proved: the converse of [C16_convex_comb_in_hull] (every point satisfying
    [in_hull] is a convex combination of data points - the separation theorem). *)
From Coq Require Import QArith Qabs ZArith List Bool String Lia.
From Verde Require Import Lib.Dyadic Lib.QExtra Model.Coordinates Model.Hull Model.ProjectGrid
  Proofs.HullProofs Proofs.ProjectGridProofs.
Import ListNotations.
Open Scope Q_scope.

(** scale / offset independence: hull membership is invariant under
    x -> sx x + ox, y -> sy y + oy for any non-zero scales (this is why the
    code's normalisation by the data mean and standard deviation is harmless) *)
Theorem C16_in_hull_affine : forall sx ox sy oy P q, ~ sx * sy == 0 ->
  (in_hull (map (aff sx ox sy oy) P) (aff sx ox sy oy q) <-> in_hull P q).
Proof. exact in_hull_affine. Qed.
Print Assumptions C16_in_hull_affine.

Theorem C16_strictly_in_hull_affine : forall sx ox sy oy m P q, 0 < sx -> 0 < sy ->
  (strictly_in_hull (sx * sy * m) (map (aff sx ox sy oy) P) (aff sx ox sy oy q) <-> strictly_in_hull m P q).
Proof. exact strictly_in_hull_affine. Qed.
Print Assumptions C16_strictly_in_hull_affine.

Theorem C16_strictly_outside_affine : forall sx ox sy oy m P q, 0 < sx -> 0 < sy ->
  (strictly_outside (sx * sy * m) (map (aff sx ox sy oy) P) (aff sx ox sy oy q) <-> strictly_outside m P q).
Proof. exact strictly_outside_affine. Qed.
Print Assumptions C16_strictly_outside_affine.

(** every convex combination of points of the hull - in particular of data points - is in the hull *)
Theorem C16_convex_comb_in_hull : forall P ws ps,
  List.length ws = List.length ps -> (forall w, In w ws -> 0 <= w) -> Qsum ws == 1 ->
  (forall p, In p ps -> in_hull P p) -> in_hull P (comb ws ps).
Proof. exact convex_comb_in_hull. Qed.
Print Assumptions C16_convex_comb_in_hull.

Theorem C16_data_point_in_hull : forall P p, In p P -> in_hull P p.
Proof. exact data_point_in_hull. Qed.
Print Assumptions C16_data_point_in_hull.

Theorem C16_convex_comb_data_in_hull : forall P ws ps,
  List.length ws = List.length ps -> (forall w, In w ws -> 0 <= w) -> Qsum ws == 1 ->
  incl ps P -> in_hull P (comb ws ps).
Proof. exact convex_comb_data_in_hull. Qed.
Print Assumptions C16_convex_comb_data_in_hull.

(** the three classes: strictly inside implies inside, strictly outside excludes
    inside, larger margins decide less; only the set of data points matters *)
Theorem C16_strictly_in_hull_in : forall m P q, 0 <= m -> strictly_in_hull m P q -> in_hull P q.
Proof. exact strictly_in_hull_in. Qed.
Print Assumptions C16_strictly_in_hull_in.

Theorem C16_strictly_outside_not_in : forall m P q, 0 <= m -> strictly_outside m P q -> ~ in_hull P q.
Proof. exact strictly_outside_not_in. Qed.
Print Assumptions C16_strictly_outside_not_in.

Theorem C16_in_hull_ext : forall P P' q, (forall x, In x P <-> In x P') -> (in_hull P q <-> in_hull P' q).
Proof. exact in_hull_ext. Qed.
Print Assumptions C16_in_hull_ext.

(** the executable mask decides the specification on lattice points, and the
    lattice test is the test on the doubles' exact values *)
Theorem C16_in_hullb_spec : forall P q, in_hullb P q = true <-> in_hull (map inj P) (inj q).
Proof. exact in_hullb_spec. Qed.
Print Assumptions C16_in_hullb_spec.

Theorem C16_classify_spec : forall m P q, (0 <= m)%Z ->
  match classify m (edges P) q with
  | Some true => strictly_in_hull (inject_Z m) (map inj P) (inj q) /\ in_hull (map inj P) (inj q)
  | Some false => strictly_outside (inject_Z m) (map inj P) (inj q) /\ ~ in_hull (map inj P) (inj q)
  | None => ~ strictly_in_hull (inject_Z m) (map inj P) (inj q) /\
            ~ strictly_outside (inject_Z m) (map inj P) (inj q)
  end.
Proof. exact classify_spec. Qed.
Print Assumptions C16_classify_spec.

Theorem C16_classify_boundary : forall P q, classify 0 (edges P) q = None ->
  in_hull (map inj P) (inj q) /\ ~ strictly_in_hull 0 (map inj P) (inj q).
Proof. exact classify_boundary. Qed.
Print Assumptions C16_classify_boundary.

Theorem C16_lattice_hull_is_dyadic_hull : forall e P q,
  let S := aff (pow2 e) 0 (pow2 e) 0 in
  in_hullb P q = true <-> in_hull (map S (map inj P)) (S (inj q)).
Proof. exact lattice_hull_is_dyadic_hull. Qed.
Print Assumptions C16_lattice_hull_is_dyadic_hull.

Theorem C16_lat_correct : forall e d, (e <= snd d)%Z -> inject_Z (lat e d) * pow2 e == D2Q d.
Proof. exact lat_correct. Qed.
Print Assumptions C16_lat_correct.

(** array form and grid form: cell (i, j) of the grid form is the array form at (east[j], north[i]) *)
Theorem C16_mask_forms_agree : forall P east north,
  mask_array P (List.concat (mesh_e east north)) (List.concat (mesh_n east north)) = List.concat (mask_grid P east north).
Proof. exact mask_forms_agree. Qed.
Print Assumptions C16_mask_forms_agree.

Theorem C16_mask_grid_nth : forall P east north i j, (i < List.length north)%nat -> (j < List.length east)%nat ->
  nth j (nth i (mask_grid P east north) []) false = in_hullb P (nth j east 0%Z, nth i north 0%Z).
Proof. exact mask_grid_nth. Qed.
Print Assumptions C16_mask_grid_nth.

(** antialiasing: weighted means with non-negative weights summing to one stay in range;
    so do block means, and a convex interpolator applied to block means *)
Theorem C16_convex_comb_in_range : forall lo hi ws vs, List.length ws = List.length vs ->
  (forall w, In w ws -> 0 <= w) -> Qsum ws == 1 -> (forall v, In v vs -> lo <= v /\ v <= hi) ->
  lo <= wsum ws vs /\ wsum ws vs <= hi.
Proof. exact convex_comb_in_range. Qed.
Print Assumptions C16_convex_comb_in_range.

Theorem C16_mean_in_range : forall lo hi vs, vs <> [] -> (forall v, In v vs -> lo <= v /\ v <= hi) ->
  lo <= mean vs /\ mean vs <= hi.
Proof. exact mean_in_range. Qed.
Print Assumptions C16_mean_in_range.

Theorem C16_antialias_range : forall lo hi (blocks : list (list Q)) ws,
  (forall b, In b blocks -> b <> [] /\ forall v, In v b -> lo <= v /\ v <= hi) ->
  List.length ws = List.length blocks -> (forall w, In w ws -> 0 <= w) -> Qsum ws == 1 ->
  lo <= wsum ws (map mean blocks) /\ wsum ws (map mean blocks) <= hi.
Proof. exact antialias_range. Qed.
Print Assumptions C16_antialias_range.

(** project_grid: the projection sees exactly the non-NaN cells; default arguments
    give a regular grid of the projected data region with the input's shape *)
Theorem C16_valid_table_in : forall (east north : list Q) (vals : list (list (option Q))) x y v,
  In (x, y, v) (valid_table east north vals) <->
  exists i j row, nth_error north i = Some y /\ nth_error vals i = Some row /\
                  nth_error east j = Some x /\ nth_error row j = Some (Some v).
Proof. exact (@valid_table_in Q Q). Qed.
Print Assumptions C16_valid_table_in.

Theorem C16_pg_default_grid : forall pe pn sn se w e s n,
  get_region pe pn = Some (w, e, s, n) -> w < e -> s < n -> (2 <= sn)%Z -> (2 <= se)%Z ->
  exists oe on, pg_coords pe pn (sn, se) None None None = Some (oe, on) /\
    List.length on = Z.to_nat sn /\ List.length oe = Z.to_nat se /\
    (forall j, (j < Z.to_nat se)%nat ->
       nth j oe 0 == w + inject_Z (Z.of_nat j) * ((e - w) / inject_Z (se - 1))) /\
    (forall i, (i < Z.to_nat sn)%nat ->
       nth i on 0 == s + inject_Z (Z.of_nat i) * ((n - s) / inject_Z (sn - 1))).
Proof. exact pg_default_grid. Qed.
Print Assumptions C16_pg_default_grid.

(** PARTIAL (positive scales, regular input vectors, default arguments, outer rows and
    columns carrying data): the output nodes are the images of the input nodes *)
Theorem C16_pg_affine_nodes_partial : forall pe pn sn se w e s n sx ox sy oy x0 dx y0 dy,
  get_region pe pn = Some (w, e, s, n) -> (2 <= sn)%Z -> (2 <= se)%Z ->
  0 < sx -> 0 < sy -> 0 < dx -> 0 < dy ->
  w == sx * x0 + ox -> e == sx * (x0 + inject_Z (se - 1) * dx) + ox ->
  s == sy * y0 + oy -> n == sy * (y0 + inject_Z (sn - 1) * dy) + oy ->
  exists oe on, pg_coords pe pn (sn, se) None None None = Some (oe, on) /\
    List.length on = Z.to_nat sn /\ List.length oe = Z.to_nat se /\
    (forall j, (j < Z.to_nat se)%nat -> nth j oe 0 == sx * (x0 + inject_Z (Z.of_nat j) * dx) + ox) /\
    (forall i, (i < Z.to_nat sn)%nat -> nth i on 0 == sy * (y0 + inject_Z (Z.of_nat i) * dy) + oy).
Proof. exact pg_affine_nodes_partial. Qed.
Print Assumptions C16_pg_affine_nodes_partial.

(** PARTIAL: for any interpolant that honours its data, a node at the image of a
    data point carries that point's value (the interpolants themselves are oracles) *)
Theorem C16_affine_reproduction_partial : forall (interp : list (pt * Q) -> pt -> Q),
  (forall data p v, In (p, v) data -> (forall p' v', In (p', v') data -> pt_eq p' p -> v' == v) -> interp data p == v) ->
  (forall data p p', pt_eq p p' -> interp data p == interp data p') ->
  forall data p v node, In (p, v) data -> (forall p' v', In (p', v') data -> pt_eq p' p -> v' == v) ->
  pt_eq node p -> interp data node == v.
Proof. exact affine_reproduction_partial. Qed.
Print Assumptions C16_affine_reproduction_partial.

(** the decidable checks evaluated on the observed output say what the property says *)
Theorem C16_nan_pattern_sound : forall need m mos fin,
  nan_pattern_holds need m mos fin = true ->
  forall i j, (i < List.length mos)%nat -> (j < List.length (nth i mos []))%nat ->
    let mo := nth j (nth i mos []) None in
    let f := nth j (nth i fin []) false in
    (mo_sout m mo = true -> f = false) /\
    (need = true -> mo_sout m mo = false -> mo_sin m mo = true -> f = true).
Proof. exact nan_pattern_sound. Qed.
Print Assumptions C16_nan_pattern_sound.

Theorem C16_range_holds_sound : forall tol vin out, range_holds tol vin out = true ->
  vin <> [] /\
  forall x, In (Some x) out ->
    let lo := Qmin_list 0 vin in let hi := Qmax_list 0 vin in
    let t := tol * Qmax 1 (Qmax (Qabs lo) (Qabs hi)) in
    lo - t <= x /\ x <= hi + t.
Proof. exact range_holds_sound. Qed.
Print Assumptions C16_range_holds_sound.

(** non-vacuity: a 5-point cloud (square with an interior point), one query of each class *)
Example C16_nv_classes :
  let P := [(0, 0); (4, 0); (4, 4); (0, 4); (1, 2)]%Z in
  non_degenerateb P = true /\
  classify 0 (edges P) (2, 2)%Z = Some true /\ classify 0 (edges P) (5, 2)%Z = Some false /\
  classify 0 (edges P) (4, 1)%Z = None /\ in_hullb P (4, 1)%Z = true /\
  mask_grid P [0; 2; 5]%Z [-1; 4]%Z = [[false; false; false]; [true; true; false]].
Proof. vm_compute. repeat split; reflexivity. Qed.

Example C16_nv_affine : ~ (3 # 2) * (-2) == 0 /\
  in_hull (map (aff (3 # 2) 7 (-2) 1) [(0, 0); (1, 0); (0, 1)]) (aff (3 # 2) 7 (-2) 1 (1 # 4, 1 # 4)).
Proof.
  split; [intros C; discriminate C|].
  apply in_hull_affine; [intros C; discriminate C|].
  assert (E: in_hull [(0, 0); (1, 0); (0, 1)] (comb [1 # 2; 1 # 4; 1 # 4] [(0, 0); (1, 0); (0, 1)])).
  { apply convex_comb_data_in_hull; [reflexivity| |reflexivity|apply incl_refl].
    intros w [<-|[<-|[<-|[]]]]; discriminate. }
  intros a b Ha Hb Hs. specialize (E a b Ha Hb Hs).
  assert (Q1: orient a b (1 # 4, 1 # 4) == orient a b (comb [1 # 2; 1 # 4; 1 # 4] [(0, 0); (1, 0); (0, 1)])).
  { unfold orient. cbn. ring. }
  rewrite Q1. exact E.
Qed.

Example C16_nv_range : let ws := [1 # 2; 1 # 4; 1 # 4] in let vs := [3; -1; 2] in
  Qsum ws == 1 /\ -1 <= wsum ws vs /\ wsum ws vs <= 3 /\ mean vs == 4 # 3.
Proof. vm_compute. repeat split; discriminate. Qed.

Example C16_nv_table :
  valid_table [10; 20; 30] [1; 2] [[Some 5; None; Some 6]; [None; Some 7; Some 8]] =
  [(10, 1, 5); (30, 1, 6); (20, 2, 7); (30, 2, 8)].
Proof. reflexivity. Qed.

Example C16_nv_default_grid :
  match pg_coords [2; 6; 2; 6] [1; 1; 4; 4] (4, 3)%Z None None None with
  | Some (oe, on) => all2 Qeqb oe [2; 4; 6] && all2 Qeqb on [1; 2; 3; 4] = true
  | None => False
  end.
Proof. vm_compute. reflexivity. Qed.
