(** C11  Blocked cross-validators never split a block and partition the data.
    Statements only; proofs are in Proofs/CrossValProofs.v.

    [labels] lists, per sample index 0..n-1, the block label verde.block_split
    assigns to the sample; [lab labels i] is the label of sample [i].
    [block_kfold] / [block_shuffle_split] / [partition_by_sum] are the models
    of the code in /repo (Model/CrossVal.v); [None] is ValueError.  Random draws
    enter as oracles constrained only to be permutations. *)
From Coq Require Import Arith List Bool ZArith QArith Qabs Permutation Sorted.
From Verde Require Import Lib.Dyadic Model.CrossVal Proofs.CrossValProofs.
Import ListNotations.
Close Scope Q_scope.
Open Scope nat_scope.

(** ** partition_by_sum *)

(** on success: parts-1 strictly increasing split points strictly inside the array *)
Theorem C11_partition_split_points : forall array parts idx,
  partition_by_sum array parts = Some idx ->
  length idx = parts - 1 /\ StronglySorted lt idx /\
  Forall (fun i => 0 < i /\ i < length array) idx.
Proof. exact pbs_structure. Qed.
Print Assumptions C11_partition_split_points.

(** hence exactly [parts] parts, none empty, concatenating to the array *)
Theorem C11_partition_parts : forall array parts idx,
  partition_by_sum array parts = Some idx -> 1 <= parts ->
  let ps := np_split array idx in
  length ps = parts /\ concat ps = array /\ Forall (fun p => p <> []) ps.
Proof. exact pbs_parts. Qed.
Print Assumptions C11_partition_parts.

(** STRICT balance (code after the repair 18a2287): every part's sum differs
    from total/parts - the rational - by less than the largest element, i.e. one
    block's population; see C11_balance_reading(_Q) for what [balance_ok] says *)
Theorem C11_partition_balance : forall array parts idx,
  partition_by_sum array parts = Some idx -> 2 <= parts ->
  balance_ok (list_sum array) parts (list_max array) (map (@list_sum) (np_split array idx)) = true.
Proof. exact pbs_balance. Qed.
Print Assumptions C11_partition_balance.

(** [balance_ok total k M ps]: every p in ps has |p - total/k| < M, cross-multiplied by k ... *)
Theorem C11_balance_reading : forall total k M ps,
  balance_ok total k M ps = true <->
  Forall (fun p => k * p < total + k * M /\ total < k * p + k * M) ps.
Proof. exact balance_ok_spec. Qed.
Print Assumptions C11_balance_reading.

(** ... which is the inequality between rationals *)
Theorem C11_balance_reading_Q : forall total k M p, 0 < k ->
  (k * p < total + k * M /\ total < k * p + k * M) <->
  (Qabs (inject_Z (Z.of_nat p) - (Z.of_nat total # Pos.of_nat k)) < inject_Z (Z.of_nat M))%Q.
Proof. exact balance_ok_Q. Qed.
Print Assumptions C11_balance_reading_Q.

(** the sharper per-split-point form: the cumulative sum in front of split point
    number j+1 is at most (j+1)*total/parts and misses it by less than the
    element sitting at the split point *)
Theorem C11_partition_split_point_balance : forall array parts idx,
  partition_by_sum array parts = Some idx ->
  forall j, j < length idx ->
  let b := nth j idx 0 in
  parts * list_sum (firstn b array) <= S j * list_sum array /\
  S j * list_sum array < parts * (list_sum (firstn b array) + nth b array 0).
Proof. exact pbs_split_point_balance. Qed.
Print Assumptions C11_partition_split_point_balance.

(** the pinned code (multiples of total // parts) violated the strict bound:
    five singleton blocks in three parts gave sums 1, 1, 3; the repaired code gives 1, 2, 2 *)
Theorem C11_partition_pinned_refuted :
  partition_by_sum_pinned [1;1;1;1;1] 3 = Some [1;2] /\
  map (@list_sum) (np_split [1;1;1;1;1] [1;2]) = [1;1;3] /\
  balance_ok 5 3 (list_max [1;1;1;1;1]) [1;1;3] = false /\
  partition_by_sum [1;1;1;1;1] 3 = Some [1;3] /\
  map (@list_sum) (np_split [1;1;1;1;1] [1;3]) = [1;2;2].
Proof. exact partition_by_sum_pinned_refuted. Qed.
Print Assumptions C11_partition_pinned_refuted.

(** ** sklearn KFold over the blocks (the fallback) *)
Theorem C11_kfold_folds : forall n k, 0 < k -> k <= n ->
  length (kfold n k) = k /\ concat (kfold n k) = seq 0 n /\
  Forall (fun f => f <> []) (kfold n k) /\
  Forall (fun f => exists s m, f = seq s m /\ n / k <= m <= n / k + 1) (kfold n k).
Proof.
  intros n k Hk Hn. repeat split;
    [apply kfold_length|apply kfold_concat, Hk|apply kfold_nonempty; assumption|apply kfold_runs].
Qed.
Print Assumptions C11_kfold_folds.

(** ** BlockKFold *)

(** exactly n_splits splits *)
Theorem C11_blockkfold_count : forall labels n_splits shuffle balance warned splits,
  shuffle_ok labels shuffle ->
  block_kfold labels n_splits shuffle balance = Some (warned, splits) ->
  length splits = n_splits.
Proof. exact bk_count. Qed.
Print Assumptions C11_blockkfold_count.

(** each split partitions the sample indices into train and test *)
Theorem C11_blockkfold_partition : forall labels n_splits shuffle balance warned splits,
  block_kfold labels n_splits shuffle balance = Some (warned, splits) ->
  Forall (fun s => Permutation (fst s ++ snd s) (seq 0 (length labels))) splits.
Proof. exact bk_partition. Qed.
Print Assumptions C11_blockkfold_partition.

(** no block contributes samples to both sides *)
Theorem C11_blockkfold_blocks_whole : forall labels n_splits shuffle balance warned splits,
  block_kfold labels n_splits shuffle balance = Some (warned, splits) ->
  Forall (fun s => forall i j, In i (fst s) -> In j (snd s) -> lab labels i <> lab labels j) splits.
Proof. exact bk_blocks_whole. Qed.
Print Assumptions C11_blockkfold_blocks_whole.

(** test folds are non-empty *)
Theorem C11_blockkfold_nonempty : forall labels n_splits shuffle balance warned splits,
  shuffle_ok labels shuffle ->
  block_kfold labels n_splits shuffle balance = Some (warned, splits) ->
  Forall (fun s => snd s <> []) splits.
Proof. exact bk_nonempty. Qed.
Print Assumptions C11_blockkfold_nonempty.

(** test folds are pairwise disjoint and together contain every sample exactly once *)
Theorem C11_blockkfold_cover : forall labels n_splits shuffle balance warned splits,
  shuffle_ok labels shuffle ->
  block_kfold labels n_splits shuffle balance = Some (warned, splits) ->
  Permutation (concat (map snd splits)) (seq 0 (length labels)).
Proof. exact bk_cover. Qed.
Print Assumptions C11_blockkfold_cover.

(** balancing requested and achieved (no warning): every test fold's point
    count differs from n / n_splits (the rational) by less than one block's
    population (the largest) *)
Theorem C11_blockkfold_balance : forall labels n_splits shuffle balance warned splits,
  shuffle_ok labels shuffle ->
  block_kfold labels n_splits shuffle balance = Some (warned, splits) ->
  balance = true -> warned = false ->
  balance_ok (length labels) n_splits (list_max (map (count labels) (usort labels)))
             (map (fun s => length (snd s)) splits) = true.
Proof. exact bk_balance. Qed.
Print Assumptions C11_blockkfold_balance.

(** a warning only when balancing was requested and partition_by_sum found no
    split; then, and with balance=False, the test folds are the points of
    KFold's folds over the block ids (equal block counts up to one) *)
Theorem C11_blockkfold_fallback : forall labels n_splits shuffle balance warned splits,
  block_kfold labels n_splits shuffle balance = Some (warned, splits) ->
  (warned = true -> balance = true /\
     partition_by_sum (map (count labels) (block_ids labels shuffle)) n_splits = None) /\
  (warned = true \/ balance = false ->
   map snd splits = map (fun f => where_isin labels (take (block_ids labels shuffle) f))
                        (kfold (length (usort labels)) n_splits)).
Proof. exact bk_fallback. Qed.
Print Assumptions C11_blockkfold_fallback.

(** ValueError exactly when n_splits < 2 or n_splits exceeds the number of occupied blocks *)
Theorem C11_blockkfold_rejects : forall labels n_splits shuffle balance,
  block_kfold labels n_splits shuffle balance = None <->
  (n_splits < 2 \/ length (usort labels) < n_splits).
Proof. exact bk_rejects. Qed.
Print Assumptions C11_blockkfold_rejects.

(** ** BlockShuffleSplit *)

Theorem C11_shufflesplit_count : forall labels n_splits balancing test_size train_size perms splits,
  block_shuffle_split labels n_splits balancing test_size train_size perms = Some splits ->
  length splits = n_splits.
Proof. exact bss_count. Qed.
Print Assumptions C11_shufflesplit_count.

(** each split partitions the samples and keeps every block on one side *)
Theorem C11_shufflesplit_partition : forall labels n_splits balancing test_size train_size perms splits,
  block_shuffle_split labels n_splits balancing test_size train_size perms = Some splits ->
  Forall (fun s => Permutation (fst s ++ snd s) (seq 0 (length labels)) /\
                   forall i j, In i (fst s) -> In j (snd s) -> lab labels i <> lab labels j) splits.
Proof. exact bss_partition. Qed.
Print Assumptions C11_shufflesplit_partition.

(** the number of blocks prescribed by test_size / train_size *)
Theorem C11_prescribed_sizes : forall n_blocks test_size train_size n_train n_test,
  validate_shuffle_split n_blocks test_size train_size = Some (n_train, n_test) ->
  1 <= n_train /\ 1 <= n_test /\ n_train + n_test <= n_blocks.
Proof. exact validate_bounds. Qed.
Print Assumptions C11_prescribed_sizes.

(** each split tests exactly the prescribed number of (whole) blocks *)
Theorem C11_shufflesplit_n_test : forall labels n_splits balancing test_size train_size perms splits n_train n_test,
  block_shuffle_split labels n_splits balancing test_size train_size perms = Some splits ->
  n_splits <> 0 ->
  validate_shuffle_split (length (usort labels)) test_size train_size = Some (n_train, n_test) ->
  length perms = n_splits * balancing ->
  Forall (fun p => Permutation p (seq 0 (length (usort labels)))) perms ->
  Forall (fun s => n_blocks_of labels (snd s) = n_test) splits.
Proof. exact bss_n_test. Qed.
Print Assumptions C11_shufflesplit_n_test.

(** each split is the FIRST candidate, among its [balancing] consecutive draws,
    that minimises | train points / test points - train blocks / test blocks | *)
Theorem C11_shufflesplit_best : forall labels n_splits balancing test_size train_size perms splits n_train n_test,
  block_shuffle_split labels n_splits balancing test_size train_size perms = Some splits ->
  n_splits <> 0 ->
  validate_shuffle_split (length (usort labels)) test_size train_size = Some (n_train, n_test) ->
  length perms = n_splits * balancing ->
  Forall2 (fun s g => length g = balancing /\
             exists m, m < length g /\
               let cs := group_candidates labels n_train n_test g in
               snd s = snd (nth m cs (0%Q, [])) /\
               (forall j, j < length g -> (fst (nth m cs (0%Q, [])) <= fst (nth j cs (0%Q, [])))%Q) /\
               (forall j, j < m -> (fst (nth m cs (0%Q, [])) < fst (nth j cs (0%Q, [])))%Q))
          splits (groups n_splits balancing perms).
Proof. exact bss_best_explicit. Qed.
Print Assumptions C11_shufflesplit_best.

(** ValueError exactly when balancing < 1 or the sizes are rejected *)
Theorem C11_shufflesplit_rejects : forall labels n_splits balancing test_size train_size perms,
  block_shuffle_split labels n_splits balancing test_size train_size perms = None <->
  (balancing < 1 \/
   (n_splits <> 0 /\ validate_shuffle_split (length (usort labels)) test_size train_size = None)).
Proof. exact bss_rejects. Qed.
Print Assumptions C11_shufflesplit_rejects.

(** ** the decidable checks evaluated on the OBSERVED folds mean what they say *)
Theorem C11_check_partition : forall l n, is_perm_seq l n = true <-> Permutation l (seq 0 n).
Proof. exact is_perm_seq_spec. Qed.
Print Assumptions C11_check_partition.

Theorem C11_check_split : forall labels s,
  split_ok labels s = true <->
  (Permutation (fst s ++ snd s) (seq 0 (length labels)) /\
   forall i j, In i (fst s) -> In j (snd s) -> lab labels i <> lab labels j).
Proof. exact split_ok_spec. Qed.
Print Assumptions C11_check_split.

(** ** non-vacuity: concrete runs of the models (these are inputs of the
    correspondence check as well) *)

(** 10 samples in blocks 0,2,3,5 with populations 3,1,2,4; three folds, balanced *)
Example C11_nv_kfold :
  block_kfold [0;0;0;2;3;3;5;5;5;5] 3 None true
  = Some (false, [([3;4;5;6;7;8;9],[0;1;2]); ([0;1;2;6;7;8;9],[3;4;5]); ([0;1;2;3;4;5],[6;7;8;9])]).
Proof. reflexivity. Qed.

(** shuffled, balancing impossible (10,1,1 in 3 folds): warning and one block per fold *)
Example C11_nv_kfold_fallback :
  shuffle_ok [7;7;7;7;7;7;7;7;7;7;8;9] (Some [2;0;1]) /\
  block_kfold [7;7;7;7;7;7;7;7;7;7;8;9] 3 (Some [2;0;1]) true
  = Some (true, [([0;1;2;3;4;5;6;7;8;9;10],[11]); ([10;11],[0;1;2;3;4;5;6;7;8;9]); ([0;1;2;3;4;5;6;7;8;9;11],[10])]).
Proof.
  split; [|reflexivity]. cbn.
  apply (perm_trans (l' := [0;2;1])); [apply perm_swap|apply perm_skip, perm_swap].
Qed.

Example C11_nv_partition : partition_by_sum [5;6;4;6;8;1;2;6;3;3] 5 = Some [1;3;4;7].
Proof. reflexivity. Qed.

(** test_size = 0.5 (exact double), two candidates per split; the second is better balanced *)
Example C11_nv_shufflesplit :
  validate_shuffle_split 4 (SFloat (1, -1)%Z) SNone = Some (2, 2) /\
  block_shuffle_split [0;0;0;1;2;2;3] 1 2 (SFloat (1, -1)%Z) SNone [[0;2;1;3]; [0;1;3;2]]
  = Some [([4;5;6],[0;1;2;3])].
Proof. split; vm_compute; reflexivity. Qed.
