(** The list linear algebra of Lib/LinAlgQ.v on exact dyadics (division-free,
    shift-based: what the generated case files execute), with the proofs that
    every operation commutes with the embedding [D2Q] into Q. *)
From Coq Require Import QArith Qabs ZArith List Bool Lia Lqa Morphisms Setoid.
From Verde Require Import Lib.Dyadic Lib.QExtra Lib.LinAlgQ.
Import ListNotations.

Fixpoint ddot (a b : list D) : D :=
  match a, b with x :: a', y :: b' => dadd (dmul x y) (ddot a' b') | _, _ => d0 end.
Fixpoint dvadd (a b : list D) : list D :=
  match a, b with x :: a', y :: b' => dadd x y :: dvadd a' b' | _, _ => [] end.
Fixpoint dvsub (a b : list D) : list D :=
  match a, b with x :: a', y :: b' => dsub x y :: dvsub a' b' | _, _ => [] end.
Fixpoint dvmul (a b : list D) : list D :=
  match a, b with x :: a', y :: b' => dmul x y :: dvmul a' b' | _, _ => [] end.
Definition dvscale (c : D) (a : list D) : list D := map (dmul c) a.
Definition dvabs (a : list D) : list D := map dabs a.
Fixpoint dzeros (n : nat) : list D := match n with O => [] | S k => d0 :: dzeros k end.
Fixpoint dones (n : nat) : list D := match n with O => [] | S k => d1 :: dones k end.
Definition dmv (A : list (list D)) (p : list D) : list D := map (fun r => ddot r p) A.
Fixpoint dtmv (n : nat) (A : list (list D)) (v : list D) : list D :=
  match A, v with r :: A', x :: v' => dvadd (dvscale x r) (dtmv n A' v') | _, _ => dzeros n end.
Definition dmax (a b : D) : D := if dle a b then b else a.
Definition dmaxabs (l : list D) : D := fold_right (fun x m => dmax (dabs x) m) d0 l.

(** embedding *)
Definition Dv (l : list D) : list Q := map D2Q l.
Definition DM (A : list (list D)) : list (list Q) := map Dv A.

Open Scope Q_scope.

Lemma D2Q_d0 : D2Q d0 == 0.
Proof. unfold D2Q, d0; cbn [fst snd]. ring. Qed.
Lemma D2Q_d1 : D2Q d1 == 1.
Proof. unfold D2Q, d1, pow2; cbn [fst snd]. cbn. ring. Qed.

Lemma Dv_length l : length (Dv l) = length l.
Proof. apply map_length. Qed.
Lemma DM_length A : length (DM A) = length A.
Proof. apply map_length. Qed.

Lemma Dv_ddot a b : D2Q (ddot a b) == dot (Dv a) (Dv b).
Proof.
  revert b; induction a as [|x a IH]; intros [|y b]; cbn [ddot Dv map dot]; try apply D2Q_d0.
  rewrite D2Q_add, D2Q_mul. unfold Dv in IH. rewrite IH. reflexivity.
Qed.
Lemma Dv_dvadd a b : veq (Dv (dvadd a b)) (vadd (Dv a) (Dv b)).
Proof. revert b; induction a as [|x a IH]; intros [|y b]; simpl; constructor; [apply D2Q_add|apply IH]. Qed.
Lemma Dv_dvsub a b : veq (Dv (dvsub a b)) (vsub (Dv a) (Dv b)).
Proof. revert b; induction a as [|x a IH]; intros [|y b]; simpl; constructor; [apply D2Q_sub|apply IH]. Qed.
Lemma Dv_dvmul a b : veq (Dv (dvmul a b)) (vmul (Dv a) (Dv b)).
Proof. revert b; induction a as [|x a IH]; intros [|y b]; simpl; constructor; [apply D2Q_mul|apply IH]. Qed.
Lemma Dv_dvscale c a : veq (Dv (dvscale c a)) (vscale (D2Q c) (Dv a)).
Proof. induction a; simpl; constructor; [apply D2Q_mul|assumption]. Qed.
Lemma Dv_dvabs a : veq (Dv (dvabs a)) (vabs (Dv a)).
Proof. induction a; simpl; constructor; [apply D2Q_abs|assumption]. Qed.
Lemma Dv_dzeros n : veq (Dv (dzeros n)) (zeros n).
Proof. induction n; simpl; constructor; [apply D2Q_d0|assumption]. Qed.
Lemma Dv_dones n : veq (Dv (dones n)) (ones n).
Proof. induction n; simpl; constructor; [apply D2Q_d1|assumption]. Qed.
Lemma Dv_dmv A p : veq (Dv (dmv A p)) (mv (DM A) (Dv p)).
Proof. induction A; simpl; constructor; [apply Dv_ddot|assumption]. Qed.
Lemma Dv_dtmv n A v : veq (Dv (dtmv n A v)) (tmv n (DM A) (Dv v)).
Proof.
  revert v; induction A as [|r A IH]; intros [|x v]; simpl; try apply Dv_dzeros.
  rewrite Dv_dvadd, Dv_dvscale, IH. reflexivity.
Qed.
Lemma DM_abs A : Forall2 veq (DM (map dvabs A)) (map vabs (DM A)).
Proof. induction A; simpl; constructor; [apply Dv_dvabs|assumption]. Qed.

(** matrices equal row-wise give equal products *)
Lemma mv_rows_proper A B p q : Forall2 veq A B -> veq p q -> veq (mv A p) (mv B q).
Proof. intros H Hp. induction H; simpl; constructor; auto. rewrite H, Hp. reflexivity. Qed.
Lemma tmv_rows_proper n A B v u : Forall2 veq A B -> veq v u -> veq (tmv n A v) (tmv n B u).
Proof.
  intros H; revert v u; induction H as [|r r' A B Hr H IH]; intros v u Hv; destruct Hv; simpl; try reflexivity.
  apply vadd_proper; [apply vscale_proper; assumption|apply IH; assumption].
Qed.
