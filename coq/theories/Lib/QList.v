(** Executable reductions over lists of rationals (used by the BlockReduce /
    BlockMean models, C09 and C10) and their elementary algebra.

    [qsum] is [Dyadic.Qsum] with a [Qred] after every addition so that
    evaluated cases keep small numerators; the two are [==]. *)
From Coq Require Import ZArith QArith Qabs Qminmax List Bool Permutation Lia Lqa.
From Verde Require Import Lib.Dyadic.
Import ListNotations.
Open Scope Q_scope.

Fixpoint map2 {A B C} (f : A -> B -> C) (la : list A) (lb : list B) : list C :=
  match la, lb with
  | a :: ta, b :: tb => f a b :: map2 f ta tb
  | _, _ => []
  end.

Definition qsum (l : list Q) : Q := fold_right (fun x a => Qred (x + a)) 0 l.

Definition Qlen {A} (l : list A) : Q := inject_Z (Z.of_nat (length l)).

(** numpy.mean / numpy.average without weights *)
Definition qmean (l : list Q) : Q := Qred (qsum l / Qlen l).

(** numpy.min *)
Definition qmin (l : list Q) : Q :=
  match l with [] => 0 | x :: t => fold_right Qmin x t end.

(** numpy.max *)
Definition qmax (l : list Q) : Q :=
  match l with [] => 0 | x :: t => fold_right Qmax x t end.

(** numpy.median: middle of the sorted values, mean of the two middles *)
Fixpoint qinsert (x : Q) (l : list Q) : list Q :=
  match l with
  | [] => [x]
  | y :: t => if Qle_bool x y then x :: l else y :: qinsert x t
  end.
Definition qsort (l : list Q) : list Q := fold_right qinsert [] l.
Definition qmedian (l : list Q) : Q :=
  let s := qsort l in
  let n := length s in
  if Nat.even n then Qred ((nth (n / 2 - 1) s 0 + nth (n / 2) s 0) / 2)
  else nth (n / 2) s 0.

(** numpy.average(values, weights=w) = sum(w*x)/sum(w) *)
Definition qdot (xs ws : list Q) : Q := qsum (map2 Qmult xs ws).
Definition qavg (xs ws : list Q) : Q := Qred (qdot xs ws / qsum ws).

(** population (ddof = 0) or sample (ddof = 1) variance, two-pass;
    [None] is the NaN numpy returns when [n - ddof <= 0] *)
Definition qsq (x : Q) : Q := x * x.
Definition qvar (ddof : nat) (l : list Q) : option Q :=
  let n := length l in
  if (n <=? ddof)%nat then None
  else let m := qmean l in
       Some (Qred (qsum (map (fun x => qsq (x - m)) l) / inject_Z (Z.of_nat (n - ddof)))).

(** weighted variance  sum w (x - m)^2 / sum w  about the weighted mean *)
Definition qwvar (xs ws : list Q) : Q :=
  let m := qavg xs ws in qavg (map (fun x => qsq (x - m)) xs) ws.

Definition qmaxabs (l : list Q) : Q := fold_right (fun x a => Qmax (Qabs x) a) 0 l.

(** ** algebra *)
Lemma qsum_Qsum l : qsum l == Qsum l.
Proof.
  induction l as [|x t IH]; cbn [qsum fold_right Qsum]; [reflexivity|].
  rewrite Qred_correct. fold (qsum t). rewrite IH. reflexivity.
Qed.

Lemma Qsum_app a b : Qsum (a ++ b) == Qsum a + Qsum b.
Proof.
  induction a as [|x t IH]; cbn [app Qsum]; [ring|]. rewrite IH. ring.
Qed.

Lemma Qsum_perm a b : Permutation a b -> Qsum a == Qsum b.
Proof.
  induction 1 as [|x l l' _ IH|x y l|l l' l'' _ IH1 _ IH2]; cbn [Qsum].
  - reflexivity.
  - rewrite IH. reflexivity.
  - ring.
  - rewrite IH1. exact IH2.
Qed.

Lemma Qsum_concat (ls : list (list Q)) : Qsum (concat ls) == Qsum (map Qsum ls).
Proof.
  induction ls as [|l t IH]; cbn [concat map Qsum]; [reflexivity|].
  rewrite Qsum_app, IH. reflexivity.
Qed.

Lemma qsum_perm a b : Permutation a b -> qsum a == qsum b.
Proof. intros H. rewrite !qsum_Qsum. apply Qsum_perm, H. Qed.

Lemma map_qsum_Qsum (ls : list (list Q)) : Qsum (map qsum ls) == Qsum (map Qsum ls).
Proof.
  induction ls as [|l t IH]; cbn [map Qsum]; [reflexivity|].
  rewrite IH, qsum_Qsum. reflexivity.
Qed.

Lemma map2_length {A B C} (f : A -> B -> C) la lb :
  length (map2 f la lb) = Nat.min (length la) (length lb).
Proof.
  revert lb. induction la as [|a ta IH]; intros [|b tb]; cbn; try reflexivity.
  rewrite IH. reflexivity.
Qed.

Lemma map2_combine {A B C} (f : A -> B -> C) la lb :
  map2 f la lb = map (fun p => f (fst p) (snd p)) (combine la lb).
Proof.
  revert lb. induction la as [|a ta IH]; intros [|b tb]; cbn; try reflexivity.
  rewrite IH. reflexivity.
Qed.
