(** List-based linear algebra over Q: vectors are [list Q], matrices are
    lists of rows.  Equality of vectors is component-wise [Qeq] ([veq]).
    Everything is by structural induction; no size bounds. *)
From Coq Require Import QArith Qabs Lqa List Morphisms Setoid Lia.
From Verde Require Import Lib.Dyadic.
Import ListNotations.
Open Scope Q_scope.

(** ** vectors *)
Fixpoint dot (a b : list Q) : Q :=
  match a, b with x :: a', y :: b' => x * y + dot a' b' | _, _ => 0 end.
Fixpoint vadd (a b : list Q) : list Q :=
  match a, b with x :: a', y :: b' => (x + y) :: vadd a' b' | _, _ => [] end.
Fixpoint vsub (a b : list Q) : list Q :=
  match a, b with x :: a', y :: b' => (x - y) :: vsub a' b' | _, _ => [] end.
Fixpoint vmul (a b : list Q) : list Q :=
  match a, b with x :: a', y :: b' => (x * y) :: vmul a' b' | _, _ => [] end.
Fixpoint vdiv (a b : list Q) : list Q :=
  match a, b with x :: a', y :: b' => (x / y) :: vdiv a' b' | _, _ => [] end.
Definition vscale (c : Q) (a : list Q) : list Q := map (Qmult c) a.
Definition vsq (a : list Q) : list Q := map (fun x => x * x) a.
Definition vabs (a : list Q) : list Q := map Qabs a.
Fixpoint zeros (n : nat) : list Q := match n with O => [] | S k => 0 :: zeros k end.
Fixpoint ones (n : nat) : list Q := match n with O => [] | S k => 1 :: ones k end.

(** ** matrices (lists of rows of length [n]) *)
Definition mv (A : list (list Q)) (p : list Q) : list Q := map (fun r => dot r p) A.
(** A^T v as sum_i v_i * row_i; [n] = number of columns *)
Fixpoint tmv (n : nat) (A : list (list Q)) (v : list Q) : list Q :=
  match A, v with r :: A', x :: v' => vadd (vscale x r) (tmv n A' v') | _, _ => zeros n end.
Definition wfm (n : nat) (A : list (list Q)) : Prop := Forall (fun r => length r = n) A.

(** ** component-wise equality *)
Definition veq : list Q -> list Q -> Prop := Forall2 Qeq.
Definition vzero (v : list Q) : Prop := Forall (fun x => x == 0) v.

Global Instance veq_equiv : Equivalence veq.
Proof.
  split.
  - intros l. induction l; constructor; auto; reflexivity.
  - intros a b H. induction H; constructor; auto. symmetry; assumption.
  - intros a b c H. revert c. induction H; intros c Hc; inversion Hc; subst; constructor.
    + etransitivity; eassumption.
    + apply IHForall2; assumption.
Qed.

Lemma veq_length a b : veq a b -> length a = length b.
Proof. intros H; induction H; simpl; congruence. Qed.

Global Instance dot_proper : Proper (veq ==> veq ==> Qeq) dot.
Proof.
  intros a a' Ha. induction Ha as [|x x' a a' Hx Ha IH]; intros b b' Hb.
  - destruct Hb; reflexivity.
  - destruct Hb as [|y y' b b' Hy Hb]; simpl; [reflexivity|].
    rewrite Hx, Hy, (IH _ _ Hb). reflexivity.
Qed.

Global Instance vadd_proper : Proper (veq ==> veq ==> veq) vadd.
Proof.
  intros a a' Ha. induction Ha as [|x x' a a' Hx Ha IH]; intros b b' Hb.
  - destruct Hb; constructor.
  - destruct Hb as [|y y' b b' Hy Hb]; simpl; constructor.
    + rewrite Hx, Hy; reflexivity.
    + apply IH; assumption.
Qed.
Global Instance vsub_proper : Proper (veq ==> veq ==> veq) vsub.
Proof.
  intros a a' Ha. induction Ha as [|x x' a a' Hx Ha IH]; intros b b' Hb.
  - destruct Hb; constructor.
  - destruct Hb as [|y y' b b' Hy Hb]; simpl; constructor.
    + rewrite Hx, Hy; reflexivity.
    + apply IH; assumption.
Qed.
Global Instance vmul_proper : Proper (veq ==> veq ==> veq) vmul.
Proof.
  intros a a' Ha. induction Ha as [|x x' a a' Hx Ha IH]; intros b b' Hb.
  - destruct Hb; constructor.
  - destruct Hb as [|y y' b b' Hy Hb]; simpl; constructor.
    + rewrite Hx, Hy; reflexivity.
    + apply IH; assumption.
Qed.
Global Instance vscale_proper : Proper (Qeq ==> veq ==> veq) vscale.
Proof.
  intros c c' Hc a a' Ha. induction Ha; simpl; constructor; auto.
  rewrite Hc, H; reflexivity.
Qed.
Global Instance vsq_proper : Proper (veq ==> veq) vsq.
Proof. intros a a' Ha. induction Ha; simpl; constructor; auto. rewrite H; reflexivity. Qed.
Global Instance mv_proper A : Proper (veq ==> veq) (mv A).
Proof.
  intros p p' Hp. unfold mv. induction A as [|r A IH]; simpl; constructor; auto.
  rewrite Hp; reflexivity.
Qed.
Global Instance vzero_proper : Proper (veq ==> iff) vzero.
Proof.
  intros a a' Ha. unfold vzero. induction Ha as [|x x' a a' Hx Ha IH].
  - tauto.
  - split; intros H; inversion H; subst; constructor; try (apply IH; assumption).
    + rewrite <- Hx; assumption.
    + rewrite Hx; assumption.
Qed.

(** ** lengths *)
Lemma length_zeros n : length (zeros n) = n.
Proof. induction n; simpl; congruence. Qed.
Lemma length_ones n : length (ones n) = n.
Proof. induction n; simpl; congruence. Qed.
Lemma length_vadd a b : length a = length b -> length (vadd a b) = length a.
Proof. revert b; induction a; intros [|y b] H; simpl in *; try discriminate; auto. Qed.
Lemma length_vsub a b : length a = length b -> length (vsub a b) = length a.
Proof. revert b; induction a; intros [|y b] H; simpl in *; try discriminate; auto. Qed.
Lemma length_vmul a b : length a = length b -> length (vmul a b) = length a.
Proof. revert b; induction a; intros [|y b] H; simpl in *; try discriminate; auto. Qed.
Lemma length_vdiv a b : length a = length b -> length (vdiv a b) = length a.
Proof. revert b; induction a; intros [|y b] H; simpl in *; try discriminate; auto. Qed.
Lemma length_vscale c a : length (vscale c a) = length a.
Proof. apply map_length. Qed.
Lemma length_vsq a : length (vsq a) = length a.
Proof. apply map_length. Qed.
Lemma length_mv A p : length (mv A p) = length A.
Proof. apply map_length. Qed.
Lemma length_tmv n A v : wfm n A -> length (tmv n A v) = n.
Proof.
  intros HA; revert v; induction HA as [|r A Hr HA IH]; intros [|x v]; simpl;
    try apply length_zeros.
  rewrite length_vadd; rewrite length_vscale; auto. rewrite IH; auto.
Qed.

(** ** dot product algebra *)
Lemma dot_comm a b : dot a b == dot b a.
Proof. revert b; induction a as [|x a IH]; intros [|y b]; simpl; try ring. rewrite IH. ring. Qed.
Lemma dot_nil_r a : dot a [] == 0.
Proof. destruct a; reflexivity. Qed.
Lemma dot_zeros_r n h : dot h (zeros n) == 0.
Proof. revert h; induction n; intros [|x h]; simpl; try reflexivity. rewrite IHn. ring. Qed.
Lemma dot_vzero_r h v : vzero v -> dot h v == 0.
Proof.
  intros Hv; revert h; induction Hv as [|y v Hy Hv IH]; intros [|x h]; simpl; try reflexivity.
  rewrite Hy, IH. ring.
Qed.
Lemma dot_vadd_r h a b : length a = length h -> length b = length h ->
  dot h (vadd a b) == dot h a + dot h b.
Proof.
  revert a b; induction h as [|x h IH]; intros [|y a] [|z b] Ha Hb; simpl in *; try discriminate; try ring.
  injection Ha as Ha; injection Hb as Hb. rewrite IH by assumption. ring.
Qed.
Lemma dot_vadd_l h a b : length a = length h -> length b = length h ->
  dot (vadd a b) h == dot a h + dot b h.
Proof. intros. rewrite dot_comm, dot_vadd_r by assumption. rewrite (dot_comm h a), (dot_comm h b). reflexivity. Qed.
Lemma dot_vsub_r h a b : length a = length h -> length b = length h ->
  dot h (vsub a b) == dot h a - dot h b.
Proof.
  revert a b; induction h as [|x h IH]; intros [|y a] [|z b] Ha Hb; simpl in *; try discriminate; try ring.
  injection Ha as Ha; injection Hb as Hb. rewrite IH by assumption. ring.
Qed.
Lemma dot_vscale_r h c a : dot h (vscale c a) == c * dot h a.
Proof. revert a; induction h as [|x h IH]; intros [|y a]; simpl; try ring. rewrite IH. ring. Qed.
Lemma dot_vmul_r h a b : dot h (vmul a b) == dot (vmul h a) b.
Proof.
  revert a b; induction h as [|x h IH]; intros [|y a] [|z b]; simpl; try ring. rewrite IH. ring.
Qed.
Lemma dot_vmul_swap a b c : dot a (vmul b c) == dot b (vmul a c).
Proof.
  revert b c; induction a as [|x a IH]; intros [|y b] [|z c]; simpl; try ring. rewrite IH. ring.
Qed.

(** [dot w (vsq v)] = sum_i w_i v_i^2 is non-negative for non-negative weights
    and vanishes only when every term does *)
Lemma wsq_nonneg w v : Forall (fun x => 0 <= x) w -> 0 <= dot w (vsq v).
Proof.
  intros Hw; revert v; induction Hw as [|x w Hx Hw IH]; intros [|y v]; simpl; try lra.
  specialize (IH v). assert (0 <= y * y) by nra. nra.
Qed.
Lemma wsq_zero w v : Forall (fun x => 0 < x) w -> length v = length w ->
  dot w (vsq v) == 0 -> vzero v.
Proof.
  intros Hw; revert v; induction Hw as [|x w Hx Hw IH]; intros [|y v] Hl H0; simpl in *;
    try discriminate; try constructor.
  - assert (Hn: 0 <= dot w (vsq v)).
    { apply wsq_nonneg. eapply Forall_impl; [|exact Hw]. intros a Ha; simpl in Ha; lra. }
    assert (0 <= y * y) by nra.
    assert (Hyy: y * y == 0) by nra.
    destruct (Qeq_dec y 0) as [E|E]; [exact E|]. exfalso. nra.
  - injection Hl as Hl. apply IH; [assumption|].
    assert (Hn: 0 <= dot w (vsq v)).
    { apply wsq_nonneg. eapply Forall_impl; [|exact Hw]. intros a Ha; simpl in Ha; lra. }
    assert (0 <= y * y) by nra. nra.
Qed.

(** ** matrix-vector algebra *)
Lemma mv_vadd A p h : wfm (length p) A -> length h = length p ->
  veq (mv A (vadd p h)) (vadd (mv A p) (mv A h)).
Proof.
  intros HA Hh. induction HA as [|r A Hr HA IH]; simpl; constructor; auto.
  apply dot_vadd_r; congruence.
Qed.
Lemma mv_vsub A p h : wfm (length p) A -> length h = length p ->
  veq (mv A (vsub p h)) (vsub (mv A p) (mv A h)).
Proof.
  intros HA Hh. induction HA as [|r A Hr HA IH]; simpl; constructor; auto.
  apply dot_vsub_r; congruence.
Qed.

(** the summation swap: (A h) . v = h . (A^T v) *)
Lemma swap n A h v : wfm n A -> length h = n -> length v = length A ->
  dot (mv A h) v == dot h (tmv n A v).
Proof.
  intros HA Hh; revert v; induction HA as [|r A Hr HA IH]; intros [|x v] Hv; simpl in *; try discriminate.
  - rewrite dot_zeros_r; reflexivity.
  - injection Hv as Hv. rewrite IH by assumption.
    rewrite dot_vadd_r, dot_vscale_r.
    + rewrite (dot_comm h r). ring.
    + rewrite length_vscale; congruence.
    + rewrite length_tmv; auto.
Qed.

Global Instance tmv_proper n A : Proper (veq ==> veq) (tmv n A).
Proof.
  intros v v' Hv. revert A. induction Hv as [|x x' v v' Hx Hv IH]; intros [|r A]; simpl; try reflexivity.
  apply vadd_proper; [|apply IH]. apply vscale_proper; [assumption|reflexivity].
Qed.

Lemma vadd_zeros_vzero a b : vzero a -> vzero b -> vzero (vadd a b).
Proof.
  intros Ha; revert b; induction Ha as [|x a Hx Ha IH]; intros b Hb; destruct Hb as [|y b Hy Hb]; simpl; constructor.
  - rewrite Hx, Hy; reflexivity.
  - apply IH; assumption.
Qed.
Lemma vzero_zeros n : vzero (zeros n).
Proof. induction n; simpl; constructor; auto; reflexivity. Qed.
Lemma vscale_vzero c a : vzero a -> vzero (vscale c a).
Proof. intros Ha; induction Ha; simpl; constructor; auto. rewrite H; ring. Qed.

(** a vector orthogonal to every vector of its length is zero *)
Lemma dot_all_zero v : (forall h, length h = length v -> dot h v == 0) -> vzero v.
Proof.
  induction v as [|x v IH]; intros H; constructor.
  - specialize (H (1 :: zeros (length v))). simpl in H. rewrite length_zeros in H.
    specialize (H eq_refl). rewrite dot_comm, dot_zeros_r in H. lra.
  - apply IH. intros h Hh. specialize (H (0 :: h)). simpl in H. rewrite Hh in H.
    specialize (H eq_refl). lra.
Qed.

(** ** sums *)
Lemma Qsum_app a b : Qsum (a ++ b) == Qsum a + Qsum b.
Proof. induction a; simpl; [ring|]. rewrite IHa; ring. Qed.
