(** Rational helpers shared by the Q models: Python's [round] (half to even),
    tolerance comparison, min/max folds, list comparison with tolerance. *)
From Coq Require Import QArith Qround Qabs Qpower ZArith Lia Lqa List Morphisms Bool.
From Verde Require Import Lib.Dyadic.
Import ListNotations.
Open Scope Q_scope.

(** Python [round(x)] for a real x: nearest integer, ties to even *)
Definition rhe (x : Q) : Z :=
  let f := Qfloor x in
  let r := x - inject_Z f in
  match Qcompare r (1#2) with
  | Lt => f
  | Gt => (f + 1)%Z
  | Eq => if Z.even f then f else (f + 1)%Z
  end.

(** distance of the fractional part from the tie 1/2 (the near-tie margin) *)
Definition tie_margin (x : Q) : Q := Qabs (x - inject_Z (Qfloor x) - (1#2)).

Lemma rhe_near x : Qabs (x - inject_Z (rhe x)) <= 1#2.
Proof.
  unfold rhe. pose proof (Qfloor_le x) as H1. pose proof (Qlt_floor x) as H2.
  rewrite inject_Z_plus in H2. change (inject_Z 1) with 1 in H2.
  destruct (Qcompare (x - inject_Z (Qfloor x)) (1#2)) eqn:Hc.
  - apply Qeq_alt in Hc. destruct (Z.even (Qfloor x)); [|rewrite inject_Z_plus; change (inject_Z 1) with 1];
    apply Qabs_case; intros; lra.
  - apply Qlt_alt in Hc. apply Qabs_case; intros; lra.
  - apply Qgt_alt in Hc. rewrite inject_Z_plus; change (inject_Z 1) with 1. apply Qabs_case; intros; lra.
Qed.

Lemma rhe_tie_even x : x - inject_Z (Qfloor x) == 1#2 -> Z.even (rhe x) = true.
Proof.
  intros H. unfold rhe. apply Qeq_alt in H. rewrite H.
  destruct (Z.even (Qfloor x)) eqn:E; [exact E|].
  rewrite Z.even_add, E. reflexivity.
Qed.

Lemma rhe_Z z : rhe (inject_Z z) = z.
Proof.
  unfold rhe. rewrite Qfloor_Z.
  assert (H: inject_Z z - inject_Z z == 0) by ring.
  destruct (Qcompare _ _) eqn:Hc.
  - apply Qeq_alt in Hc. lra.
  - reflexivity.
  - apply Qgt_alt in Hc. lra.
Qed.

Global Instance rhe_proper : Proper (Qeq ==> eq) rhe.
Proof.
  intros x y Hxy. unfold rhe.
  assert (Hf: Qfloor x = Qfloor y).
  { apply Z.le_antisymm; apply Qfloor_resp_le; lra. }
  rewrite Hf. rewrite Hxy. reflexivity.
Qed.

Lemma rhe_nonneg x : 0 <= x -> (0 <= rhe x)%Z.
Proof.
  intros H. pose proof (rhe_near x) as N.
  destruct (Z_lt_ge_dec (rhe x) 0) as [L|G]; [|lia]. exfalso.
  assert (inject_Z (rhe x) <= -1). { change (-1) with (inject_Z (-1)). rewrite <- Zle_Qle. lia. }
  revert N. apply Qabs_case; intros; lra.
Qed.

(** unique nearest integer away from ties *)
Lemma rhe_unique x k : Qabs (x - inject_Z k) < 1#2 -> rhe x = k.
Proof.
  intros H. pose proof (rhe_near x) as N.
  assert (D: Qabs (inject_Z (rhe x) - inject_Z k) < 1).
  { assert (E: inject_Z (rhe x) - inject_Z k == (x - inject_Z k) - (x - inject_Z (rhe x))) by ring.
    rewrite E. eapply Qle_lt_trans; [apply Qabs_triangle|].
    rewrite Qabs_opp. lra. }
  destruct (Z.eq_dec (rhe x) k) as [E|NE]; [exact E|exfalso].
  assert (C: (rhe x - k <= -1)%Z \/ (1 <= rhe x - k)%Z) by lia.
  assert (Ed: inject_Z (rhe x) - inject_Z k == inject_Z (rhe x - k)).
  { unfold Z.sub. rewrite inject_Z_plus, inject_Z_opp. ring. }
  rewrite Ed in D.
  destruct C as [C|C]; rewrite Zle_Qle in C;
    change (inject_Z (-1)) with (-1) in C; change (inject_Z 1) with 1 in C;
    revert D; apply Qabs_case; intros; lra.
Qed.

(** ** tolerance comparison *)
Definition Qleb (a b : Q) : bool := match Qcompare a b with Gt => false | _ => true end.
Definition Qltb (a b : Q) : bool := match Qcompare a b with Lt => true | _ => false end.
Definition Qeqb (a b : Q) : bool := match Qcompare a b with Eq => true | _ => false end.

Lemma Qleb_spec a b : Qleb a b = true <-> a <= b.
Proof.
  unfold Qleb. destruct (Qcompare a b) eqn:E; split; intros H; try reflexivity; try discriminate.
  - apply Qeq_alt in E. lra.
  - apply Qlt_alt in E. lra.
  - apply Qgt_alt in E. lra.
Qed.
Lemma Qltb_spec a b : Qltb a b = true <-> a < b.
Proof.
  unfold Qltb. destruct (Qcompare a b) eqn:E; split; intros H; try reflexivity; try discriminate.
  - apply Qeq_alt in E. lra.
  - apply Qlt_alt in E. exact E.
  - apply Qgt_alt in E. lra.
Qed.
Lemma Qeqb_spec a b : Qeqb a b = true <-> a == b.
Proof.
  unfold Qeqb. destruct (Qcompare a b) eqn:E; split; intros H; try reflexivity; try discriminate.
  - apply Qeq_alt in E. exact E.
  - apply Qlt_alt in E. lra.
  - apply Qgt_alt in E. lra.
Qed.

Definition Qmax (a b : Q) : Q := if Qleb a b then b else a.
Definition Qmin (a b : Q) : Q := if Qleb a b then a else b.

(** |a - b| <= tol * scale  (tol = 2^-40 by default) *)
Definition tol40 : Q := 1 # (2 ^ 40).
Definition close_by (scale a b : Q) : bool := Qleb (Qabs (a - b)) (tol40 * scale).

Fixpoint all2 {A B} (f : A -> B -> bool) (l1 : list A) (l2 : list B) : bool :=
  match l1, l2 with
  | [], [] => true
  | x :: t1, y :: t2 => f x y && all2 f t1 t2
  | _, _ => false
  end.

Definition maxabs_list (l : list Q) : Q := fold_right (fun x m => Qmax (Qabs x) m) 0 l.

(** lists equal within tolerance relative to [scale] *)
Definition close_list (scale : Q) (l1 l2 : list Q) : bool := all2 (close_by scale) l1 l2.

(** fast exact conversion of a dyadic to a rational: no gcd, no Qpower *)
Definition QD (d : D) : Q :=
  let '(m, e) := d in
  match e with
  | Z0 => inject_Z m
  | Zpos p => inject_Z (m * 2 ^ (Zpos p))
  | Zneg p => Qmake m (2 ^ p)%positive
  end.

Lemma QD_correct d : QD d == D2Q d.
Proof.
  destruct d as [m e]. unfold QD, D2Q. cbn [fst snd]. destruct e as [|p|p].
  - unfold pow2. cbn. ring.
  - rewrite inject_Z_mult. rewrite pow2_Z by lia. reflexivity.
  - unfold pow2. cbn [Qpower]. rewrite Qmake_Qdiv.
    unfold Qdiv. apply Qmult_comp; [reflexivity|].
    apply Qinv_comp. rewrite Pos2Z.inj_pow.
    rewrite Zpower_Qpower by lia. reflexivity.
Qed.
