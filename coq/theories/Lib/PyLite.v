(** PyLite: a deep embedding of the small Python fragment in which verde's
    scalar coordinate functions are written, with an exact-arithmetic
    big-step semantics.  `harness/translate_pylite.py` serialises the Python
    `ast` of those functions - read from /repo on every run - into terms of
    [func]; the generated file then proves, for ALL arguments, that running
    the serialised source gives what the hand-written model gives
    (Proofs/PyLiteProofs.v provides the proof scripts).  The model is thereby
    tied to the current source by a re-checked proof, in addition to the
    sampled correspondence.

    Numbers: Python ints are [VZ], floats are read as the rationals they
    denote ([VQ]); [/] is true division; [round] is half-to-even ([rhe]).
    Anything outside the fragment evaluates to [Stuck], which makes the
    equivalence proofs fail (fail closed). *)
From Coq Require Import QArith Qround Qabs ZArith List Bool String.
From Verde Require Import Lib.QExtra Model.Coordinates.
Import ListNotations.
Open Scope string_scope.

Inductive val :=
| VNone
| VB (b : bool)
| VZ (z : Z)
| VQ (q : Q)
| VS (s : string)
| VL (l : list val).          (* list / tuple / 1-D array *)

Inductive binop := Add | Sub | Mul | Div.
Inductive cmpop := CLt | CLe | CGt | CGe | CEq | CNe.

Inductive expr :=
| EVar (x : string)
| EConst (v : val)
| EBin (op : binop) (a b : expr)
| ENeg (a : expr)
| ECmp (op : cmpop) (a b : expr)
| ENot (a : expr)
| EAnd (a b : expr)
| EOr (a b : expr)
| EIsNone (a : expr) (negated : bool)        (* x is None / x is not None *)
| EIn (a : expr) (l : list expr) (negated : bool)
| ECall (f : string) (args : list expr)
| ETuple (l : list expr)
| EIndex (a : expr) (i : Z)                  (* a[i], i >= 0 *)
| ESliceTo (a : expr) (k : Z)                (* a[:k]  (k = -1: all but the last; k >= 0: first k) *).

Inductive stmt :=
| SAssign (targets : list string) (e : expr)     (* x = e ; a, b = e *)
| SAug (x : string) (op : binop) (e : expr)      (* x op= e *)
| SIf (c : expr) (th el : list stmt)
| SRaise
| SReturn (e : expr)
| SPass.

Record func := { f_params : list string; f_body : list stmt }.

Inductive outcome :=
| Normal (env : list (string * val))
| Returned (v : val)
| Raised                      (* an exception propagated (ValueError / IndexError ...) *)
| Stuck.                      (* outside the fragment / dynamic type error *)

Fixpoint lookup (env : list (string * val)) (x : string) : option val :=
  match env with
  | [] => None
  | (y, v) :: t => if String.eqb x y then Some v else lookup t x
  end.

Definition toQ (v : val) : option Q :=
  match v with VZ z => Some (inject_Z z) | VQ q => Some q | _ => None end.

Definition arith (op : binop) (a b : val) : option val :=
  match op, a, b with
  | Add, VZ x, VZ y => Some (VZ (x + y))
  | Sub, VZ x, VZ y => Some (VZ (x - y))
  | Mul, VZ x, VZ y => Some (VZ (x * y))
  | Div, _, _ => match toQ a, toQ b with Some x, Some y => Some (VQ (x / y)) | _, _ => None end
  | Add, _, _ => match toQ a, toQ b with Some x, Some y => Some (VQ (x + y)) | _, _ => None end
  | Sub, _, _ => match toQ a, toQ b with Some x, Some y => Some (VQ (x - y)) | _, _ => None end
  | Mul, _, _ => match toQ a, toQ b with Some x, Some y => Some (VQ (x * y)) | _, _ => None end
  end.

(** array (+|-|*|/) scalar and scalar op array broadcast; array op array element-wise *)
Fixpoint map_opt {A B} (f : A -> option B) (l : list A) : option (list B) :=
  match l with
  | [] => Some []
  | x :: t => match f x, map_opt f t with Some y, Some r => Some (y :: r) | _, _ => None end
  end.

Definition binop_val (op : binop) (a b : val) : option val :=
  match a, b with
  | VL l, VL r => None
  | VL l, _ => option_map VL (map_opt (fun x => arith op x b) l)
  | _, VL r => option_map VL (map_opt (fun y => arith op a y) r)
  | _, _ => arith op a b
  end.

Definition cmp_val (op : cmpop) (a b : val) : option bool :=
  match a, b with
  | VS x, VS y => match op with CEq => Some (String.eqb x y) | CNe => Some (negb (String.eqb x y)) | _ => None end
  | VZ x, VZ y =>
      Some (match op with
            | CLt => (x <? y)%Z | CLe => (x <=? y)%Z | CGt => (y <? x)%Z | CGe => (y <=? x)%Z
            | CEq => (x =? y)%Z | CNe => negb (x =? y)%Z end)
  | _, _ =>
      match toQ a, toQ b with
      | Some x, Some y =>
          Some (match op with
                | CLt => Qltb x y | CLe => Qleb x y | CGt => Qltb y x | CGe => Qleb y x
                | CEq => Qeqb x y | CNe => negb (Qeqb x y) end)
      | _, _ => None
      end
  end.

Definition unQ (l : list val) : option (list Q) := map_opt toQ l.

(** builtins of the fragment *)
Definition call (f : string) (args : list val) : option (option val) :=   (* None: stuck; Some None: raises *)
  let is := String.eqb f in
  if is "len" then match args with [VL l] => Some (Some (VZ (Z.of_nat (List.length l)))) | _ => None end
  else if is "round" then match args with [v] => match toQ v with Some q => Some (Some (VZ (rhe q))) | None => None end | _ => None end
  else if is "int" then match args with [VZ z] => Some (Some (VZ z)) | _ => None end
  else if is "abs" then match args with [VZ z] => Some (Some (VZ (Z.abs z))) | [VQ q] => Some (Some (VQ (Qabs q))) | _ => None end
  else if is "np.isscalar" then
    match args with
    | [VL _] => Some (Some (VB false))
    | [VZ _] => Some (Some (VB true))
    | [VQ _] => Some (Some (VB true))
    | _ => None
    end
  else if is "np.min" then
    match args with
    | [VL l] => match unQ l with
                | Some (x :: t) => Some (Some (VQ (Qmin_list 0 (x :: t))))
                | Some [] => Some None
                | None => None end
    | _ => None
    end
  else if is "np.max" then
    match args with
    | [VL l] => match unQ l with
                | Some (x :: t) => Some (Some (VQ (Qmax_list 0 (x :: t))))
                | Some [] => Some None
                | None => None end
    | _ => None
    end
  else if is "np.linspace" then
    match args with
    | [a; b; VZ n] =>
        match toQ a, toQ b with
        | Some x, Some y => if (n <? 0)%Z then Some None else Some (Some (VL (map VQ (linspace x y (Z.to_nat n)))))
        | _, _ => None
        end
    | _ => None
    end
  else None.

Fixpoint nth_val (l : list val) (i : nat) : option val :=
  match l, i with
  | x :: _, O => Some x
  | _ :: t, S k => nth_val t k
  | [], _ => None
  end.

Section Eval.
(** functions of the same module that the fragment may call, given by their
    semantics (instantiated with [run] of their own serialised source) *)
Variable user : string -> option (list val -> option (option val)).

(** expression evaluation: [None] = stuck, [Some None] = raised *)
Fixpoint eval (env : list (string * val)) (e : expr) {struct e} : option (option val) :=
  let ret v := Some (Some v) in
  match e with
  | EVar x => match lookup env x with Some v => ret v | None => None end
  | EConst v => ret v
  | EBin op a b =>
      match eval env a, eval env b with
      | Some (Some x), Some (Some y) => match binop_val op x y with Some v => ret v | None => None end
      | Some None, _ => Some None
      | Some (Some _), Some None => Some None
      | _, _ => None
      end
  | ENeg a =>
      match eval env a with
      | Some (Some (VZ z)) => ret (VZ (- z))
      | Some (Some (VQ q)) => ret (VQ (- q))
      | Some None => Some None
      | _ => None
      end
  | ECmp op a b =>
      match eval env a, eval env b with
      | Some (Some x), Some (Some y) => match cmp_val op x y with Some r => ret (VB r) | None => None end
      | Some None, _ => Some None
      | Some (Some _), Some None => Some None
      | _, _ => None
      end
  | ENot a => match eval env a with Some (Some (VB b)) => ret (VB (negb b)) | Some None => Some None | _ => None end
  | EAnd a b =>
      match eval env a with
      | Some (Some (VB false)) => ret (VB false)
      | Some (Some (VB true)) => match eval env b with Some (Some (VB r)) => ret (VB r) | Some None => Some None | _ => None end
      | Some None => Some None
      | _ => None
      end
  | EOr a b =>
      match eval env a with
      | Some (Some (VB true)) => ret (VB true)
      | Some (Some (VB false)) => match eval env b with Some (Some (VB r)) => ret (VB r) | Some None => Some None | _ => None end
      | Some None => Some None
      | _ => None
      end
  | EIsNone a neg =>
      match eval env a with
      | Some (Some VNone) => ret (VB (negb neg))
      | Some (Some _) => ret (VB neg)
      | Some None => Some None
      | None => None
      end
  | EIn a l neg =>
      match eval env a with
      | Some (Some x) =>
          (fix go (l : list expr) : option (option val) :=
             match l with
             | [] => ret (VB neg)
             | y :: t => match eval env y with
                         | Some (Some v) => match cmp_val CEq x v with
                                            | Some true => ret (VB (negb neg))
                                            | Some false => go t
                                            | None => None end
                         | Some None => Some None
                         | None => None end
             end) l
      | Some None => Some None
      | None => None
      end
  | ECall f args =>
      match (fix go (l : list expr) : option (option (list val)) :=
               match l with
               | [] => Some (Some [])
               | a :: t => match eval env a with
                           | Some (Some v) => match go t with Some (Some r) => Some (Some (v :: r)) | o => o end
                           | Some None => Some None
                           | None => None end
               end) args with
      | Some (Some vs) => match user f with Some g => g vs | None => call f vs end
      | Some None => Some None
      | None => None
      end
  | ETuple l =>
      match (fix go (l : list expr) : option (option (list val)) :=
               match l with
               | [] => Some (Some [])
               | a :: t => match eval env a with
                           | Some (Some v) => match go t with Some (Some r) => Some (Some (v :: r)) | o => o end
                           | Some None => Some None
                           | None => None end
               end) l with
      | Some (Some vs) => ret (VL vs)
      | Some None => Some None
      | None => None
      end
  | EIndex a i =>
      match eval env a with
      | Some (Some (VL l)) => if (i <? 0)%Z then None else
                              match nth_val l (Z.to_nat i) with Some v => ret v | None => Some None end   (* IndexError *)
      | Some None => Some None
      | _ => None
      end
  | ESliceTo a k =>
      match eval env a with
      | Some (Some (VL l)) => if (k =? -1)%Z then ret (VL (removelast l))
                              else if (0 <=? k)%Z then ret (VL (firstn (Z.to_nat k) l)) else None
      | Some None => Some None
      | _ => None
      end
  end.

Fixpoint bind_targets (targets : list string) (vs : list val) (env : list (string * val))
  : option (list (string * val)) :=
  match targets, vs with
  | [], [] => Some env
  | x :: t, v :: r => bind_targets t r ((x, v) :: env)
  | _, _ => None
  end.

Fixpoint exec (s : stmt) (env : list (string * val)) {struct s} : outcome :=
  let run_list :=
    fix run_list (l : list stmt) (env : list (string * val)) : outcome :=
      match l with
      | [] => Normal env
      | s :: t => match exec s env with Normal env' => run_list t env' | o => o end
      end in
  match s with
  | SAssign [x] e =>
      match eval env e with Some (Some v) => Normal ((x, v) :: env) | Some None => Raised | None => Stuck end
  | SAssign targets e =>
      match eval env e with
      | Some (Some (VL vs)) => match bind_targets targets vs env with Some env' => Normal env' | None => Raised end
      | Some (Some _) => Stuck
      | Some None => Raised
      | None => Stuck
      end
  | SAug x op e =>
      match lookup env x, eval env e with
      | Some a, Some (Some b) => match binop_val op a b with Some v => Normal ((x, v) :: env) | None => Stuck end
      | Some _, Some None => Raised
      | _, _ => Stuck
      end
  | SIf c th el =>
      match eval env c with
      | Some (Some (VB true)) => run_list th env
      | Some (Some (VB false)) => run_list el env
      | Some None => Raised
      | _ => Stuck
      end
  | SRaise => Raised
  | SReturn e => match eval env e with Some (Some v) => Returned v | Some None => Raised | None => Stuck end
  | SPass => Normal env
  end.

Fixpoint exec_list (l : list stmt) (env : list (string * val)) : outcome :=
  match l with
  | [] => Normal env
  | s :: t => match exec s env with Normal env' => exec_list t env' | o => o end
  end.

(** calling a function: falling off the end returns None *)
Definition run (f : func) (args : list val) : outcome :=
  match bind_targets (f_params f) args [] with
  | None => Stuck
  | Some env =>
      match exec_list (f_body f) env with
      | Normal _ => Returned VNone
      | o => o
      end
  end.

End Eval.

Definition no_user : string -> option (list val -> option (option val)) := fun _ => None.

(** a callee's outcome as seen by its caller *)
Definition as_callee (o : outcome) : option (option val) :=
  match o with
  | Returned v => Some (Some v)
  | Raised => Some None
  | _ => None
  end.
