(** PyLite: a deep embedding of the small Python fragment in which some of
    verde's functions are written, with an exact-arithmetic big-step
    semantics.  `harness/translate_pylite.py` serialises the Python `ast` of
    those functions - read from /repo on every run - into terms of [func];
    the generated files then prove, for ALL arguments, that running the
    serialised source gives what the hand-written model gives (the proof
    scripts are in harness/pylite_*.v.tmpl).  The model is thereby tied to
    the current source by a re-checked proof, in addition to the sampled
    correspondence.

    Numbers: Python ints are [VZ], floats are read as the rationals they
    denote ([VQ]); [/] is true division, [//] and [%] floor ([x % m] is
    [x - m*floor(x/m)]: the sign of the divisor).  A zero divisor is outside
    the fragment ([Stuck]: Python numbers raise ZeroDivisionError, numpy
    numbers give inf/nan/0 with a warning).  [round] is half-to-even ([rhe]).

    Sequences: [VL] is a Python list, [VT] a tuple (iterators such as
    [reversed(..)] / [enumerate(..)] are rendered as lists: they are only
    iterated or converted).  [VA] is a numpy array: 1-D when its
    elements are scalars, 2-D when they are [VA] rows.  Only arrays
    broadcast; int arrays and float arrays are told apart by their elements
    ([np.array] unifies them, assignment into a float array casts).

    Mutation ([x.append(v)], [x[i] = v], [x[:k] = v]) is modelled by
    rebinding [x].  That is faithful when no alias of the mutated object is
    live, which the serialiser checks syntactically ("freshness" in
    harness/translate_pylite.py).

    Objects ([VO]) carry their class name and the attributes assigned so far;
    [self.a = v] rebinds [self].  The effect on the caller's object is not
    observed (functions are observed through their result or exception only),
    and attributes set by a callee are not seen (reading them is [Stuck]).

    Anything outside the fragment evaluates to [Stuck], which makes the
    equivalence proofs fail (fail closed). *)
From Coq Require Import QArith Qround Qabs ZArith List Bool String.
From Coq Require Import Ascii DecimalString.
From Verde Require Import Lib.QExtra Model.Coordinates.
Import ListNotations.
Open Scope string_scope.

Inductive val :=
| VNone
| VB (b : bool)
| VZ (z : Z)
| VQ (q : Q)
| VS (s : string)
| VL (l : list val)           (* list *)
| VT (l : list val)           (* tuple *)
| VA (l : list val)           (* numpy array *)
| VO (cls : string) (fields : list (string * val)).   (* an object: its class name and the attributes set so far *)

Inductive binop := Add | Sub | Mul | Div | FloorDiv | Mod | Pow.   (* Pow: x ** n, n a non-negative int *)
Inductive cmpop := CLt | CLe | CGt | CGe | CEq | CNe.

(** comprehensions: [e for x in it] (a list), all(e for x in it), any(e for x in it);
    all / any stop at the first deciding element, as the generator forms do *)
Inductive comp_kind := CList | CAll | CAny | CConcat.   (* CConcat: the elements are lists, concatenated (several for clauses) *)

Inductive expr :=
| EVar (x : string)
| EConst (v : val)
| EBin (op : binop) (a b : expr)
| ENeg (a : expr)
| ECmp (op : cmpop) (a b : expr)
| ENot (a : expr)
| EAnd (a b : expr)
| EOr (a b : expr)
| EIsNone (a : expr) (negated : bool)        (* x is None / x is not None *)
| EIn (a : expr) (l : list expr) (negated : bool)
| ECall (f : string) (args : list expr)      (* f(args); methods and attributes are calls of "meth:m" / "attr:a" on the object *)
| ETuple (l : list expr)                     (* (a, b, ...) *)
| EList (l : list expr)                      (* [a, b, ...] *)
| EComp (k : comp_kind) (x : string) (it : expr) (body : expr)
| EIndex (a : expr) (i : Z)                  (* a[i], i >= 0 a literal *)
| EIdx (a : expr) (i : expr)                 (* a[i], i computed (negative: from the end) *)
| ESliceTo (a : expr) (k : Z)                (* a[:k]  (k = -1: all but the last; k >= 0: first k) *)
| ESliceFrom (a : expr) (k : Z)              (* a[k:], k >= 0 *)
| ECallStar (f : string) (args : list expr) (star : expr)    (* f(args, *star): the elements of the sequence [star] are the last positional arguments *)
| ECompT (k : comp_kind) (targets : list string) (it : expr) (body : expr)    (* a comprehension with a tuple target: e for a, b in it *)
| ESliceToE (a : expr) (k : expr)            (* a[:k], k computed and >= 0 (a negative k counts from the end: outside the fragment) *)
| ECallV (x : string) (args : list expr).    (* x(args), x a LOCAL VARIABLE holding a function value "<fn:NAME>" (npmax = np.nanmax; npmax(a)):
                                                the call of NAME *)

Inductive stmt :=
| SAssign (targets : list string) (e : expr)     (* x = e ; a, b = e *)
| SAug (x : string) (op : binop) (e : expr)      (* x op= e *)
| SIf (c : expr) (th el : list stmt)
| SFor (targets : list string) (it : expr) (body : list stmt)   (* for x in it / for a, b in it (no break/continue/else) *)
| SAppend (x : string) (e : expr)                (* x.append(e), x a list *)
| SSetItem (x : string) (i : expr) (e : expr)    (* x[i] = e *)
| SSetSlice (x : string) (k : Z) (e : expr)      (* x[:k] = e, k >= 0 *)
| SAugItem (x : string) (i : expr) (op : binop) (e : expr)   (* x[i] op= e *)
| SSetAttr (x : string) (a : string) (e : expr)  (* x.a = e, x an object (only [self] is admitted by the serialiser) *)
| SExpr (e : expr)                               (* an expression evaluated for its exceptions *)
| SRaise
| SReturn (e : expr)
| SPass
| SMethod (x : string) (m : string) (args : list expr)
    (* x.m(args) as a statement, where the method may mutate x (fit): x is rebound to the object that the
       specification "mut:m" in the [user] table returns for (x :: args); the method's result is dropped.
       Faithful when no alias of x is live: the serialiser admits it for [self] only, and only in functions
       where [self] occurs in no other way than [self.a], [self.m(..)] and [return self] *)
| SSetCol (x : string) (i : expr) (e : expr)    (* x[:, i] = e, x a 2-D array, e a 1-D array with one element per row *)
| SCallSt (t : string) (x : string) (f : string) (args : list expr)
    (* t = x.m(args) / t = f(x, args) where the call CHANGES THE STATE of the object x (a file being read,
       a generator): [f] (given by specification in the [user] table) receives the state of x
       and the arguments and returns the pair (result, new state); t is bound to the result and x is
       rebound to the new state.  The serialiser hoists such calls out of the expression they occur
       in, accepting them only in the position that is evaluated first *)
| SYield (e : expr)
    (* yield e: the yielded values are collected, in order, in the hidden variable "$yield"
       (see [run_gen]) *)
| STry (body handler : list stmt)
    (* try: body except E: handler.  PyLite has ONE exception, so the handler catches everything the
       body raises, and it runs in the environment the try statement STARTED in: the serialiser accepts
       the form only when that cannot be observed (see harness/translate_pylite.py), and the template
       states why every exception of the body is of the class E *)
| SLog (f : string) (args : list expr).
    (* a call made for its effect on the world (warnings.warn): logged, in order, in the hidden
       variable "$log" (see [run_gen_log]) *)

Record func := { f_params : list string; f_body : list stmt }.

Inductive outcome :=
| Normal (env : list (string * val))
| Returned (v : val)
| Raised                      (* an exception propagated (ValueError / IndexError ...) *)
| Stuck.                      (* outside the fragment / dynamic type error *)

Fixpoint lookup (env : list (string * val)) (x : string) : option val :=
  match env with
  | [] => None
  | (y, v) :: t => if String.eqb x y then Some v else lookup t x
  end.

Definition toQ (v : val) : option Q :=
  match v with VZ z => Some (inject_Z z) | VQ q => Some q | _ => None end.

(** Python's float [%] and [//] on exact numbers *)
Definition qfloordiv (x y : Q) : Q := inject_Z (Qfloor (x / y)).
Definition qmod (x y : Q) : Q := x - y * inject_Z (Qfloor (x / y)).

(** [x ** n] for a non-negative int n, by repeated multiplication (0 ** 0 = 1, as in Python and numpy) *)
Fixpoint qpow_nat (x : Q) (n : nat) : Q :=
  match n with O => 1 | S k => x * qpow_nat x k end.

Definition arith (op : binop) (a b : val) : option val :=
  match op, a, b with
  | Add, VZ x, VZ y => Some (VZ (x + y))
  | Sub, VZ x, VZ y => Some (VZ (x - y))
  | Mul, VZ x, VZ y => Some (VZ (x * y))
  | FloorDiv, VZ x, VZ y => if (y =? 0)%Z then None else Some (VZ (x / y))
  | Mod, VZ x, VZ y => if (y =? 0)%Z then None else Some (VZ (x mod y))
  | Add, _, _ => match toQ a, toQ b with Some x, Some y => Some (VQ (x + y)) | _, _ => None end
  | Sub, _, _ => match toQ a, toQ b with Some x, Some y => Some (VQ (x - y)) | _, _ => None end
  | Mul, _, _ => match toQ a, toQ b with Some x, Some y => Some (VQ (x * y)) | _, _ => None end
  | Div, _, _ => match toQ a, toQ b with
                 | Some x, Some y => if Qeqb y 0 then None else Some (VQ (x / y))
                 | _, _ => None end
  | FloorDiv, _, _ => match toQ a, toQ b with
                      | Some x, Some y => if Qeqb y 0 then None else Some (VQ (qfloordiv x y))
                      | _, _ => None end
  | Mod, _, _ => match toQ a, toQ b with
                 | Some x, Some y => if Qeqb y 0 then None else Some (VQ (qmod x y))
                 | _, _ => None end
  (* x ** n: a negative exponent (a float from ints in Python, an error on numpy int arrays, a zero
     division for 0.0) and a float exponent are outside the fragment *)
  | Pow, VZ x, VZ y => if (y <? 0)%Z then None else Some (VZ (x ^ y))
  | Pow, _, VZ y => match toQ a with
                    | Some x => if (y <? 0)%Z then None else Some (VQ (qpow_nat x (Z.to_nat y)))
                    | None => None end
  | Pow, _, _ => None
  end.

Section MapOpt.
Context {A B : Type} (f : A -> option B).
Fixpoint map_opt (l : list A) : option (list B) :=
  match l with
  | [] => Some []
  | x :: t => match f x, map_opt t with Some y, Some r => Some (y :: r) | _, _ => None end
  end.
End MapOpt.

(** array (+|-|*|/|//|%) scalar and scalar op array broadcast (any number of
    dimensions); everything else on sequences is outside the fragment *)
Fixpoint bc_l (op : binop) (b : val) (a : val) : option val :=
  match a with
  | VA l => option_map VA (map_opt (bc_l op b) l)
  | _ => arith op a b
  end.
Fixpoint bc_r (op : binop) (a : val) (b : val) : option val :=
  match b with
  | VA r => option_map VA (map_opt (bc_r op a) r)
  | _ => arith op a b
  end.
Definition arith2 (op : binop) (p : val * val) : option val :=
  match fst p, snd p with
  | VA _, _ | _, VA _ => None
  | x, y => arith op x y
  end.

Definition binop_val (op : binop) (a b : val) : option val :=
  match a, b with
  | VL l, VZ n => match op with Mul => Some (VL (List.concat (repeat l (Z.to_nat n)))) | _ => None end   (* [x] * n *)
  | VT l, VZ n => match op with Mul => Some (VT (List.concat (repeat l (Z.to_nat n)))) | _ => None end
  | VA l, VA r =>                    (* two 1-D arrays of the same length, element-wise *)
      if Nat.eqb (List.length l) (List.length r)
      then option_map VA (map_opt (arith2 op) (combine l r))
      else None
  | VA l, _ => bc_l op b a
  | _, VA r => bc_r op a b
  | VS x, VS y => match op with Add => Some (VS (x ++ y)) | _ => None end   (* str + str *)
  | VL l, VL r => match op with Add => Some (VL (l ++ r)) | _ => None end   (* list + list: a new list *)
  | VT l, VT r => match op with Add => Some (VT (l ++ r)) | _ => None end   (* tuple + tuple *)
  | _, _ => arith op a b
  end.

Definition cmp_scalar (op : cmpop) (a b : val) : option bool :=
  match a, b with
  | VS x, VS y => match op with CEq => Some (String.eqb x y) | CNe => Some (negb (String.eqb x y)) | _ => None end
  | VZ x, VZ y =>
      Some (match op with
            | CLt => (x <? y)%Z | CLe => (x <=? y)%Z | CGt => (y <? x)%Z | CGe => (y <=? x)%Z
            | CEq => (x =? y)%Z | CNe => negb (x =? y)%Z end)
  | _, _ =>
      match toQ a, toQ b with
      | Some x, Some y =>
          Some (match op with
                | CLt => Qltb x y | CLe => Qleb x y | CGt => Qltb y x | CGe => Qleb y x
                | CEq => Qeqb x y | CNe => negb (Qeqb x y) end)
      | _, _ => None
      end
  end.

(** == on tuples of scalars: same length and equal elements *)
Fixpoint tuple_eqb (l r : list val) : option bool :=
  match l, r with
  | [], [] => Some true
  | x :: l', y :: r' =>
      match cmp_scalar CEq x y, tuple_eqb l' r' with
      | Some b, Some c => Some (b && c)
      | _, _ => None
      end
  | _, _ => if forallb (fun v => match v with VZ _ | VQ _ => true | _ => false end) (l ++ r) then Some false else None
  end.

Definition cmp_val (op : cmpop) (a b : val) : option bool :=
  match a, b with
  | VT l, VT r => match op with
                  | CEq => tuple_eqb l r
                  | CNe => option_map negb (tuple_eqb l r)
                  | _ => None end
  | _, _ => cmp_scalar op a b
  end.

(** comparison with array-scalar broadcasting (a bool array) *)
Definition cmp_bc (op : cmpop) (a b : val) : option val :=
  match a, b with
  | VA l, VA r => None
  | VA l, _ => option_map VA (map_opt (fun x => option_map VB (cmp_val op x b)) l)
  | _, VA r => option_map VA (map_opt (fun y => option_map VB (cmp_val op a y)) r)
  | _, _ => option_map VB (cmp_val op a b)
  end.

(** truth value testing ([if x:], [not x]); an array is ambiguous in numpy *)
Definition truthy (v : val) : option bool :=
  match v with
  | VNone => Some false
  | VB b => Some b
  | VZ z => Some (negb (z =? 0)%Z)
  | VQ q => Some (negb (Qeqb q 0))
  | VS s => Some (negb (String.eqb s ""))
  | VL l => Some (match l with [] => false | _ :: _ => true end)
  | VT l => Some (match l with [] => false | _ :: _ => true end)
  | VA _ => None
  | VO _ _ => Some true
  end.

Fixpoint comp_loop (k : comp_kind) (f : val -> option (option val)) (vs : list val) : option (option val) :=
  match vs with
  | [] => Some (Some (match k with CList | CConcat => VL [] | CAll => VB true | CAny => VB false end))
  | v :: t =>
      match f v with
      | Some (Some b) =>
          match k with
          | CList => match comp_loop k f t with
                     | Some (Some (VL r)) => Some (Some (VL (b :: r)))
                     | Some (Some _) => None
                     | o => o end
          | CConcat => match b, comp_loop k f t with
                       | VL l, Some (Some (VL r)) => Some (Some (VL (l ++ r)))
                       | VL _, Some None => Some None
                       | _, _ => None end
          | CAll => match truthy b with
                    | Some true => comp_loop k f t
                    | Some false => Some (Some (VB false))
                    | None => None end
          | CAny => match truthy b with
                    | Some false => comp_loop k f t
                    | Some true => Some (Some (VB true))
                    | None => None end
          end
      | Some None => Some None
      | None => None
      end
  end.

Definition unQ (l : list val) : option (list Q) := map_opt toQ l.

Definition seq_of (v : val) : option (list val) :=
  match v with VL l => Some l | VT l => Some l | VA l => Some l | _ => None end.

Definition is_scalar (v : val) : bool :=
  match v with VB _ | VZ _ | VQ _ => true | _ => false end.

(** ** arrays *)
Fixpoint has_Q (v : val) : bool :=
  match v with
  | VQ _ => true
  | VL l => existsb has_Q l
  | VT l => existsb has_Q l
  | VA l => existsb has_Q l
  | _ => false
  end.

(** np.array(v) with the numeric leaves cast to float when [cast] *)
Fixpoint to_array (cast : bool) (v : val) : option val :=
  match v with
  | VZ z => Some (if cast then VQ (inject_Z z) else VZ z)
  | VQ q => Some (VQ q)
  | VB b => if cast then None else Some (VB b)
  | VL l => option_map VA (map_opt (to_array cast) l)
  | VT l => option_map VA (map_opt (to_array cast) l)
  | VA l => option_map VA (map_opt (to_array cast) l)
  | _ => None
  end.

(** the shape, read along the first elements; [rect] says that it is the
    shape of every element (numpy refuses ragged input) *)
Fixpoint shape_of (v : val) : list nat :=
  match v with
  | VL l => List.length l :: match l with x :: _ => shape_of x | [] => [] end
  | VT l => List.length l :: match l with x :: _ => shape_of x | [] => [] end
  | VA l => List.length l :: match l with x :: _ => shape_of x | [] => [] end
  | _ => []
  end.

Definition shape_eqb (a b : list nat) : bool :=
  (fix go (a b : list nat) : bool :=
     match a, b with
     | [], [] => true
     | x :: a', y :: b' => Nat.eqb x y && go a' b'
     | _, _ => false
     end) a b.

Fixpoint rect (v : val) : bool :=
  match v with
  | VL l => forallb rect l &&
            match l with x :: t => forallb (fun y => shape_eqb (shape_of y) (shape_of x)) t | [] => true end
  | VT l => forallb rect l &&
            match l with x :: t => forallb (fun y => shape_eqb (shape_of y) (shape_of x)) t | [] => true end
  | VA l => forallb rect l &&
            match l with x :: t => forallb (fun y => shape_eqb (shape_of y) (shape_of x)) t | [] => true end
  | _ => true
  end.

Definition np_array (v : val) : option val :=
  match v with
  | VL _ | VT _ | VA _ => if rect v then to_array (has_Q v) v else None
  | _ => None
  end.

(** the value stored by [a[..] = v] in an array with the elements [l] whose
    replaced part is [old]: cast to the array's type, same shape (numpy would
    broadcast or truncate otherwise: outside the fragment) *)
Definition store_cast (l : list val) (old v : val) : option val :=
  if negb (existsb has_Q l) && has_Q v then None else
  if negb (rect v) then None else
  match to_array (existsb has_Q l) v with
  | Some v' => if shape_eqb (shape_of v') (shape_of old) then Some v' else None
  | None => None
  end.

Fixpoint set_nth (l : list val) (i : nat) (v : val) : option (list val) :=
  match l, i with
  | _ :: t, O => Some (v :: t)
  | x :: t, S k => option_map (cons x) (set_nth t k v)
  | [], _ => None
  end.

Fixpoint nth_val (l : list val) (i : nat) : option val :=
  match l, i with
  | x :: _, O => Some x
  | _ :: t, S k => nth_val t k
  | [], _ => None
  end.

(** Python's index normalisation: [None] = IndexError *)
Definition norm_index (n : nat) (i : Z) : option nat :=
  let j := if (i <? 0)%Z then (i + Z.of_nat n)%Z else i in
  if (j <? 0)%Z || (Z.of_nat n <=? j)%Z then None else Some (Z.to_nat j).

Fixpoint where3 (c x y : list val) : option (list val) :=
  match c, x, y with
  | [], [], [] => Some []
  | VB b :: c', a :: x', d :: y' => option_map (cons (if b then a else d)) (where3 c' x' y')
  | _, _, _ => None
  end.

(** an operand of np.where broadcast to length n *)
Definition bc_list (n : nat) (v : val) : option (list val) :=
  match v with
  | VA l => if Nat.eqb (List.length l) n then Some l else None
  | VZ _ | VQ _ => Some (repeat v n)
  | _ => None
  end.

(** np.ones_like(a): the same shape and type, filled with ones *)
Fixpoint ones_like (v : val) : option val :=
  match v with
  | VZ _ => Some (VZ 1)
  | VQ _ => Some (VQ 1)
  | VB _ => Some (VB true)
  | VA l => option_map VA (map_opt ones_like l)
  | _ => None
  end.

(** sorted(seq, key=sum): a stable sort of sequences of ints by their sum *)
Definition sum_key (v : val) : option Z :=
  match v with
  | VT l | VL l => fold_right (fun x acc => match x, acc with VZ z, Some a => Some (z + a)%Z | _, _ => None end) (Some 0%Z) l
  | _ => None
  end.
Fixpoint insert_key (kx : Z) (x : val) (l : list (Z * val)) : list (Z * val) :=
  match l with
  | [] => [(kx, x)]
  | (ky, y) :: t => if (kx <=? ky)%Z then (kx, x) :: (ky, y) :: t else (ky, y) :: insert_key kx x t
  end.
Fixpoint sort_keyed (l : list (Z * val)) : list (Z * val) :=
  match l with [] => [] | (k, x) :: t => insert_key k x (sort_keyed t) end.

Fixpoint enumerate_from (i : Z) (l : list val) : list val :=
  match l with [] => [] | x :: t => VT [VZ i; x] :: enumerate_from (i + 1) t end.

Definition all_scalar (l : list val) : bool := forallb is_scalar l.

Definition unB (l : list val) : option (list bool) :=
  map_opt (fun v => match v with VB b => Some b | _ => None end) l.

(** np.isin on ints: is [v] equal to an element of [r] *)
Definition isin_val (r : list val) (v : val) : option val :=
  match v with
  | VZ x => option_map (fun bs => VB (existsb (fun b => b) bs))
                       (map_opt (fun y => match y with VZ z => Some (x =? z)%Z | _ => None end) r)
  | _ => None
  end.

(** a.sum() of a bool array (True counts 1) or an int array *)
Definition sum_val (l : list val) : option Z :=
  fold_right (fun v acc => match v, acc with
                           | VB b, Some a => Some ((if b then 1 else 0) + a)%Z
                           | VZ z, Some a => Some (z + a)%Z
                           | _, _ => None end) (Some 0%Z) l.

(** np.argmin: the first position holding the minimum *)
Fixpoint argmin_q (l : list Q) : nat :=
  match l with
  | [] => O
  | x :: t =>
      match t with
      | [] => O
      | _ => let j := argmin_q t in if Qle_bool x (nth j t 0) then O else S j
      end
  end.

(** zip: the tuples of the i-th elements, up to the shortest sequence *)
Fixpoint heads_tails (ls : list (list val)) : option (list val * list (list val)) :=
  match ls with
  | [] => Some ([], [])
  | [] :: _ => None
  | (x :: t) :: r => match heads_tails r with Some (hs, ts) => Some (x :: hs, t :: ts) | None => None end
  end.
Fixpoint zipn (fuel : nat) (ls : list (list val)) : list val :=
  match fuel with
  | O => []
  | S k => match heads_tails ls with Some (hs, ts) => VT hs :: zipn k ts | None => [] end
  end.

(** the elements of an array in row-major order *)
Fixpoint flatten_arr (v : val) : list val :=
  match v with VA l => flat_map flatten_arr l | x => [x] end.

(** fmt.format(arg) for a format string with exactly one replacement field, the plain "{}", and no other
    brace; [arg] already rendered by str() *)
Fixpoint has_brace (s : string) : bool :=
  match s with
  | EmptyString => false
  | String c r => Ascii.eqb c "{"%char || Ascii.eqb c "}"%char || has_brace r
  end.
Fixpoint format_one (fmt arg : string) : option string :=
  match fmt with
  | EmptyString => None
  | String c r =>
      if Ascii.eqb c "{"%char then
        match r with
        | String d r' => if Ascii.eqb d "}"%char && negb (has_brace r') then Some (arg ++ r') else None
        | EmptyString => None
        end
      else if Ascii.eqb c "}"%char then None
      else option_map (String c) (format_one r arg)
  end.
(** str(z) of a Python int *)
Definition str_of_Z (z : Z) : string := NilZero.string_of_int (Z.to_int z).

(** x in seq for a list / tuple of scalars, strings or tuples (== on each element, left to right) *)
Fixpoint member (x : val) (l : list val) : option bool :=
  match l with
  | [] => Some false
  | y :: t => match cmp_val CEq x y with
              | Some true => Some true
              | Some false => member x t
              | None => None end
  end.

(** max of a non-empty sequence of ints *)
Fixpoint max_ints (l : list val) : option Z :=
  match l with
  | [VZ z] => Some z
  | VZ z :: t => match max_ints t with Some m => Some (Z.max z m) | None => None end
  | _ => None
  end.

(** a[mask], mask a bool array of the same length: the elements where the mask is True (another length is
    an IndexError in numpy: outside the fragment) *)
Fixpoint mask_take (l m : list val) : option (list val) :=
  match l, m with
  | [], [] => Some []
  | x :: l', VB b :: m' => option_map (fun r => if b then x :: r else r) (mask_take l' m')
  | _, _ => None
  end.

(** a[mask] = vs: the k-th True position receives the k-th element of vs, which must have exactly as many
    elements as the mask has True entries (numpy raises / broadcasts otherwise: outside the fragment) *)
Fixpoint mask_put (l m vs : list val) : option (list val) :=
  match l, m with
  | [], [] => match vs with [] => Some [] | _ :: _ => None end
  | x :: l', VB true :: m' => match vs with v :: vs' => option_map (cons v) (mask_put l' m' vs') | [] => None end
  | x :: l', VB false :: m' => option_map (cons x) (mask_put l' m' vs)
  | _, _ => None
  end.

Definition all_num (l : list val) : bool := forallb (fun v => match v with VZ _ | VQ _ => true | _ => false end) l.

(** np.abs of a number *)
Definition abs_val (v : val) : option val :=
  match v with VZ z => Some (VZ (Z.abs z)) | VQ q => Some (VQ (Qabs q)) | _ => None end.

(** the function value "<fn:NAME>" -> NAME *)
Definition fn_name (v : val) : option string :=
  match v with
  | VS s => if String.prefix "<fn:" s && (4 <? String.length s)%nat &&
               String.eqb (String.substring (String.length s - 1) 1 s) ">"
            then Some (String.substring 4 (String.length s - 5) s) else None
  | _ => None
  end.

(** dicts with string keys: an object of class "dict" whose fields are the items in INSERTION order, every key
    once; d[k] = v replaces the value of an existing key in place and appends a new key (Python's rule) *)
Fixpoint dict_set (fs : list (string * val)) (k : string) (v : val) : list (string * val) :=
  match fs with
  | [] => [(k, v)]
  | (k', v') :: t => if String.eqb k k' then (k, v) :: t else (k', v') :: dict_set t k v
  end.
Fixpoint dict_of_pairs (l : list val) (acc : list (string * val)) : option (list (string * val)) :=
  match l with
  | [] => Some acc
  | VT [VS k; v] :: t => dict_of_pairs t (dict_set acc k v)
  | _ => None
  end.

(** x[:] = v ("fill[:]"): every element of the array x is overwritten - by the number v (cast to the
    array's type), or by the elements of an array v of the same shape (broadcasting a smaller array, and a
    float stored into an int array, which numpy truncates, are outside the fragment) *)
Fixpoint fill_leaves (cast : bool) (v : val) (x : val) : val :=
  match x with
  | VA l => VA (map (fill_leaves cast v) l)
  | _ => match v with VZ z => if cast then VQ (inject_Z z) else VZ z | _ => v end
  end.
Definition fill_all (x v : val) : option val :=
  match x with
  | VA l =>
      match v with
      | VZ _ | VQ _ => if negb (has_Q x) && has_Q v then None
                       else if rect x then Some (fill_leaves (has_Q x) v x) else None
      | VA _ => if negb (has_Q x) && has_Q v then None
                else if rect x && rect v && shape_eqb (shape_of x) (shape_of v) then to_array (has_Q x) v else None
      | _ => None
      end
  | _ => None
  end.

(** column op row: an (n, 1) array against a 1-D array of m numbers broadcasts to the (n, m) array of
    x_i op y_j (numpy's broadcasting rule for trailing dimensions 1 and m) *)
Definition binop_outer (arith_ : val -> val -> option val) (a b : val) : option val :=
  match a, b with
  | VA l, VA r =>
      if forallb is_scalar r
      then option_map VA (map_opt (fun row => match row with
                                               | VA [x] => if is_scalar x then option_map VA (map_opt (fun y => arith_ x y) r) else None
                                               | _ => None end) l)
      else None
  | _, _ => None
  end.

(** itertools.product(a, b): the pairs (x, y), x in a (outer), y in b (inner) *)
Definition product2 (a b : list val) : list val := flat_map (fun x => map (fun y => VT [x; y]) b) a.

(** x[r0:r1, c0:c1] = v ("store[,]") on a rectangular 2-D array x with R rows and C columns: a missing
    bound (None) is 0 / R / C, given bounds must lie in 0..R / 0..C (negative bounds count from the end,
    larger ones are clipped by numpy: outside the fragment), and v must be a 2-D array of exactly the shape
    of the block (numpy would broadcast or raise otherwise); its elements are cast to x's type (a float
    stored into an int array is truncated by numpy: outside the fragment) *)
Definition slice_bound (dflt : nat) (v : val) (n : nat) : option nat :=
  match v with
  | VNone => Some dflt
  | VZ z => if (0 <=? z)%Z && (z <=? Z.of_nat n)%Z then Some (Z.to_nat z) else None
  | _ => None
  end.
Definition set_block_rows (rows vr : list val) (a b c d : nat) : list val :=
  map (fun p => if Nat.leb a (fst p) && Nat.ltb (fst p) b then
                  match snd p, nth (fst p - a) vr VNone with
                  | VA l, VA w => VA (firstn c l ++ w ++ skipn d l)
                  | r, _ => r
                  end
                else snd p)
      (combine (seq 0 (List.length rows)) rows).
Definition set_block (x rlo rhi clo chi v : val) : option val :=
  match x, v with
  | VA rows, VA _ =>
      if rect x && rect v && negb (negb (has_Q x) && has_Q v) then
        match shape_of x with
        | [R; C] =>
            match slice_bound 0 rlo R, slice_bound R rhi R, slice_bound 0 clo C, slice_bound C chi C with
            | Some a, Some b, Some c, Some d =>
                if Nat.leb a b && Nat.leb c d && shape_eqb (shape_of v) [b - a; d - c]%nat then
                  match to_array (has_Q x) v with
                  | Some (VA vr) => Some (VA (set_block_rows rows vr a b c d))
                  | _ => None
                  end
                else None
            | _, _, _, _ => None
            end
        | _ => None
        end
      else None
  | _, _ => None
  end.

(** np.concatenate(seq) of 1-D arrays of numbers: the elements in order, one type for all (float if any is) *)
Definition concat_arrays (l : list val) : option val :=
  match map_opt (fun v => match v with VA e => if forallb is_scalar e then Some e else None | _ => None end) l with
  | Some ls => match ls with [] => None | _ => to_array (existsb has_Q l) (VA (List.concat ls)) end
  | None => None
  end.

(** builtins of the fragment, on exact numbers *)
Definition call (f : string) (args : list val) : option (option val) :=   (* None: stuck; Some None: raises *)
  let is := String.eqb f in
  if is "len" then match args with [VL l] => Some (Some (VZ (Z.of_nat (List.length l))))
                                 | [VT l] => Some (Some (VZ (Z.of_nat (List.length l))))
                                 | [VA l] => Some (Some (VZ (Z.of_nat (List.length l))))
                                 | [VNone] | [VB _] | [VZ _] | [VQ _] => Some None          (* TypeError *)
                                 | _ => None end
  else if is "round" then match args with [v] => match toQ v with Some q => Some (Some (VZ (rhe q))) | None => None end | _ => None end
  else if is "int" then match args with [VZ z] => Some (Some (VZ z)) | _ => None end
  else if is "abs" then match args with [VZ z] => Some (Some (VZ (Z.abs z))) | [VQ q] => Some (Some (VQ (Qabs q))) | _ => None end
  else if is "reversed" then match args with [VL l] => Some (Some (VL (rev l))) | [VT l] => Some (Some (VL (rev l))) | _ => None end
  else if is "enumerate" then match args with [VL l] => Some (Some (VL (enumerate_from 0 l)))
                                            | [VT l] => Some (Some (VL (enumerate_from 0 l))) | _ => None end
  else if is "tuple" then match args with [VL l] => Some (Some (VT l)) | [VT l] => Some (Some (VT l)) | _ => None end
  else if is "list" then match args with [VL l] => Some (Some (VL l)) | [VT l] => Some (Some (VL l)) | _ => None end
  else if is "np.isscalar" then
    match args with
    | [VL _] => Some (Some (VB false))
    | [VT _] => Some (Some (VB false))
    | [VA _] => Some (Some (VB false))
    | [VZ _] => Some (Some (VB true))
    | [VQ _] => Some (Some (VB true))
    | _ => None
    end
  else if is "np.min" then
    match args with
    | [VA l] => match unQ l with
                | Some (x :: t) => Some (Some (VQ (Qmin_list 0 (x :: t))))
                | Some [] => Some None
                | None => None end
    | [VL l] => match unQ l with                    (* a list of numbers: numpy converts it to an array first *)
                | Some (x :: t) => Some (Some (VQ (Qmin_list 0 (x :: t))))
                | Some [] => Some None
                | None => None end
    | _ => None
    end
  else if is "np.max" then
    match args with
    | [VA l] => match unQ l with
                | Some (x :: t) => Some (Some (VQ (Qmax_list 0 (x :: t))))
                | Some [] => Some None
                | None => None end
    | [VL l] => match unQ l with                    (* a list of numbers: numpy converts it to an array first *)
                | Some (x :: t) => Some (Some (VQ (Qmax_list 0 (x :: t))))
                | Some [] => Some None
                | None => None end
    | _ => None
    end
  else if is "np.linspace" then
    match args with
    | [a; b; VZ n] =>
        match toQ a, toQ b with
        | Some x, Some y => if (n <? 0)%Z then Some None else Some (Some (VA (map VQ (linspace x y (Z.to_nat n)))))
        | _, _ => None
        end
    | _ => None
    end
  else if is "np.array" then
    match args with [v] => match np_array v with Some a => Some (Some a) | None => None end | _ => None end
  else if is "np.atleast_1d" then
    match args with
    | [VZ z] => Some (Some (VA [VZ z]))
    | [VQ q] => Some (Some (VA [VQ q]))
    | [v] => match np_array v with Some a => Some (Some a) | None => None end
    | _ => None
    end
  else if is "np.any" then
    match args with
    | [VB b] => Some (Some (VB b))
    | [VA l] => match unB l with Some bs => Some (Some (VB (existsb (fun b => b) bs))) | None => None end
    | _ => None
    end
  else if is "np.where" then
    match args with
    | [VA c] =>                       (* np.where(mask): the 1-tuple of the positions of the True entries *)
        match unB c with
        | Some bs => Some (Some (VT [VA (map (fun p => VZ (Z.of_nat (fst p)))
                                           (filter (fun p => snd p) (combine (seq 0 (List.length bs)) bs)))]))
        | None => None
        end
    | [VA c; x; y] =>
        let n := List.length c in
        match bc_list n x, bc_list n y with
        | Some xs, Some ys =>
            match where3 c xs ys with
            | Some r => match to_array (has_Q x || has_Q y) (VA r) with Some a => Some (Some a) | None => None end
            | None => None
            end
        | _, _ => None
        end
    | _ => None
    end
  else if is "np.meshgrid" then       (* two 1-D arrays, default indexing="xy": rows follow the second one *)
    match args with
    | [VA x; VA y] =>
        if all_scalar x && all_scalar y
        then Some (Some (VT [VA (map (fun _ => VA x) y); VA (map (fun b => VA (map (fun _ => b) x)) y)]))
        else None
    | _ => None
    end
  else if is "np.ones_like" then
    match args with [VA l] => match ones_like (VA l) with Some a => Some (Some a) | None => None end | _ => None end
  else if is "sorted,key=sum" then
    match args with
    | [v] => match seq_of v with
             | Some l => match map_opt (fun x => option_map (fun k => (k, x)) (sum_key x)) l with
                         | Some kl => Some (Some (VL (map snd (sort_keyed kl))))
                         | None => None end
             | None => None end
    | _ => None
    end
  else if is "range" then
    match args with
    | [VZ n] => Some (Some (VL (map (fun i => VZ (Z.of_nat i)) (seq 0 (Z.to_nat n)))))
    | _ => None
    end
  else if is "np.arange" then
    match args with
    | [VZ a; VZ b] => Some (Some (VA (map (fun i => VZ (a + Z.of_nat i)) (seq 0 (Z.to_nat (b - a))))))
    | [VZ n] => Some (Some (VA (map (fun i => VZ (Z.of_nat i)) (seq 0 (Z.to_nat n)))))
    | _ => None
    end
  else if is "isinstance:str" then
    match args with [VS _] => Some (Some (VB true)) | [_] => Some (Some (VB false)) | _ => None end
  else if is "isinstance:tuple" then
    match args with [VT _] => Some (Some (VB true)) | [_] => Some (Some (VB false)) | _ => None end
  else if is "isinstance:list" then
    match args with [VL _] => Some (Some (VB true)) | [_] => Some (Some (VB false)) | _ => None end
  else if is "meth:ravel" then
    match args with [VA l] => if all_scalar l then Some (Some (VA l)) else None | _ => None end
  else if is "attr:size" then
    match args with [VA l] => if all_scalar l then Some (Some (VZ (Z.of_nat (List.length l)))) else None | _ => None end
  else if is "attr:shape" then       (* a.shape of a (rectangular) array; an object's own attribute otherwise *)
    match args with
    | [VA l] => if rect (VA l) then Some (Some (VT (map (fun n => VZ (Z.of_nat n)) (shape_of (VA l))))) else None
    | [VO _ fs] => match lookup fs "shape" with Some v => Some (Some v) | None => None end
    | _ => None
    end
  else if String.prefix "attr:" f then      (* obj.a: an attribute set in this function, or given with the object *)
    match args with
    | [VO _ fs] => match lookup fs (String.substring 5 (String.length f - 5) f) with
                   | Some v => Some (Some v)
                   | None => None end
    | _ => None
    end
  else if is "meth:format" then       (* "..{}..".format(x), x an int or a str *)
    match args with
    | [VS fmt; VZ z] => match format_one fmt (str_of_Z z) with Some r => Some (Some (VS r)) | None => None end
    | [VS fmt; VS a] => match format_one fmt a with Some r => Some (Some (VS r)) | None => None end
    | _ => None
    end
  else if is "zip" then               (* zip(s1, .., sn): tuples up to the shortest sequence (rendered as a list: only iterated) *)
    match map_opt seq_of args with
    | Some ls => Some (Some (VL (zipn (List.length (hd [] ls)) ls)))
    | None => None
    end
  else if is "meth:reshape" then      (* a.reshape((n,)) / a.reshape((-1,)): the elements in row-major order; ValueError if the sizes differ *)
    match args with
    | [VA l; VT [VZ n]] =>
        if rect (VA l) then
          let fl := flatten_arr (VA l) in
          if (n =? -1)%Z || (n =? Z.of_nat (List.length fl))%Z then Some (Some (VA fl))
          else if (0 <=? n)%Z then Some None else None
        else None
    | [VA l; VT [VZ n; VZ 1]] =>         (* a.reshape((n, 1)) of a 1-D array: a column *)
        if forallb is_scalar l then
          if (n =? Z.of_nat (List.length l))%Z then Some (Some (VA (map (fun x => VA [x]) l)))
          else if (0 <=? n)%Z then Some None else None
        else None
    | _ => None
    end
  else if is "in" then                  (* x in seq: the serialiser renders `a in e` for a non-literal e as a call of "in" *)
    match args with
    | [x; VL l] | [x; VT l] => match member x l with Some b => Some (Some (VB b)) | None => None end
    | _ => None
    end
  else if is "max" then                 (* max(seq) of ints; an empty sequence raises ValueError *)
    match args with
    | [VL []] | [VT []] => Some None
    | [VL l] | [VT l] => match max_ints l with Some m => Some (Some (VZ m)) | None => None end
    | [a; b] => match cmp_scalar CGt b a with         (* max(a, b) of two numbers: b if b > a else a *)
                | Some c => if is_scalar a && is_scalar b then Some (Some (if c then b else a)) else None
                | None => None end
    | _ => None
    end
  else if is "np.ravel" then            (* a 1-D array is its own raveling *)
    match args with
    | [VA l] => if all_scalar l then Some (Some (VA l))
                else if rect (VA l) then Some (Some (VA (flatten_arr (VA l))))   (* n-D: the elements in C order *)
                else None
    | _ => None end
  else if is "np.isin" then           (* element-wise membership of an int array in an int / an int array *)
    match args with
    | [VA l; VZ i] => option_map (fun r => Some (VA r)) (map_opt (isin_val [VZ i]) l)
    | [VA l; VA r] => option_map (fun r => Some (VA r)) (map_opt (isin_val r) l)
    | _ => None
    end
  else if is "meth:sum" then          (* sum of a bool array (the number of True) / of an int array *)
    match args with
    | [VA l] => option_map (fun z => Some (VZ z)) (sum_val l)
    | _ => None
    end
  else if is "index[:,]" then         (* a[:, k]: column k of a 2-D array *)
    match args with
    | [VA rows; VZ k] =>
        if (k <? 0)%Z then None else
        match map_opt (fun r => match r with VA c => Some (nth_val c (Z.to_nat k)) | _ => None end) rows with
        | Some cells => match map_opt (fun c => c) cells with
                        | Some col => Some (Some (VA col))
                        | None => Some None end                          (* IndexError *)
        | None => None
        end
    | _ => None
    end
  else if is "min" then               (* min(a, b) of two numbers: b if b < a else a *)
    match args with
    | [a; b] => match cmp_scalar CLt b a with
                | Some c => if is_scalar a && is_scalar b then Some (Some (if c then b else a)) else None
                | None => None end
    | _ => None
    end
  else if is "np.argmin" then         (* the first position of the minimum *)
    match args with
    | [v] => match seq_of v with
             | Some l => match unQ l with
                         | Some (x :: t) => Some (Some (VZ (Z.of_nat (argmin_q (x :: t)))))
                         | Some [] => Some None
                         | None => None end
             | None => None end
    | _ => None
    end
  (* --- phase 4 (b): variance_to_weights / maxabs --- *)
  else if is "np.nanmin" || is "meth:min" then   (* PyLite numbers are never NaN: nanmin = min; a.min() = np.min(a) *)
    match args with
    | [VA l] | [VL l] => match unQ l with
                | Some (x :: t) => Some (Some (VQ (Qmin_list 0 (x :: t))))
                | Some [] => Some None
                | None => None end
    | _ => None
    end
  else if is "np.nanmax" || is "meth:max" then
    match args with
    | [VA l] | [VL l] => match unQ l with
                | Some (x :: t) => Some (Some (VQ (Qmax_list 0 (x :: t))))
                | Some [] => Some None
                | None => None end
    | _ => None
    end
  else if is "np.abs" then              (* element-wise on a 1-D array / a list or tuple of numbers (converted to an array) *)
    match args with
    | [VZ z] => Some (Some (VZ (Z.abs z)))
    | [VQ q] => Some (Some (VQ (Qabs q)))
    | [v] => match np_array v with
             | Some (VA l) => match map_opt abs_val l with Some r => Some (Some (VA r)) | None => None end
             | _ => None end
    | _ => None
    end
  else if is "np.nan_to_num,copy=" then   (* a 1-D array of (finite, non-NaN: PyLite has no others) numbers: unchanged *)
    match args with
    | [VA l; VB _] => if all_num l then Some (Some (VA l)) else None
    | _ => None
    end
  else if is "dict" then                (* {k: v for ..} / dict(pairs): the serialiser renders a dict comprehension as dict([(k, v) for ..]) *)
    match args with
    | [VL l] => match dict_of_pairs l [] with Some fs => Some (Some (VO "dict" fs)) | None => None end
    | _ => None
    end
  else if is "np.ones_like,dtype=" then   (* np.ones_like(a, dtype="float64") of a 1-D array: float ones *)
    match args with
    | [VA l; VS d] => if all_scalar l && String.eqb d "float64" then Some (Some (VA (map (fun _ => VQ 1) l))) else None
    | _ => None
    end
  else if is "meth:copy" then         (* a.copy() of an array: the same values (a new object) *)
    match args with [VA l] => Some (Some (VA l)) | _ => None end
  else if is "fill[:]" then           (* x[:] = v, see [fill_all] *)
    match args with [x; v] => match fill_all x v with Some r => Some (Some r) | None => None end | _ => None end
  else if is "itertools.product" then (* two sequences; rendered as a list: only iterated *)
    match args with
    | [a; b] => match seq_of a, seq_of b with Some la, Some lb => Some (Some (VL (product2 la lb))) | _, _ => None end
    | _ => None
    end
  else if is "store[,]" then          (* x[r0:r1, c0:c1] = v, see [set_block] *)
    match args with
    | [x; rlo; rhi; clo; chi; v] => match set_block x rlo rhi clo chi v with Some r => Some (Some r) | None => None end
    | _ => None
    end
  else if is "np.concatenate" then    (* a sequence of 1-D arrays *)
    match args with
    | [v] => match seq_of v with
             | Some l => match concat_arrays l with Some r => Some (Some r) | None => None end
             | None => None end
    | _ => None
    end
  else None.

(** binding the target(s) of a comprehension with a tuple target (the same as [bind_pattern] below) *)
Fixpoint comp_bind_targets (targets : list string) (vs : list val) (env : list (string * val))
  : option (list (string * val)) :=
  match targets, vs with
  | [], [] => Some env
  | x :: t, v :: r => comp_bind_targets t r ((x, v) :: env)
  | _, _ => None
  end.
Definition comp_bind (targets : list string) (v : val) (env : list (string * val))
  : list (string * val) + bool :=
  match targets with
  | [x] => inl ((x, v) :: env)
  | _ => match seq_of v with
         | Some vs => match comp_bind_targets targets vs env with Some env' => inl env' | None => inr true end
         | None => inr false
         end
  end.

(** a[idx] with an int array as index (fancy indexing): [None] = IndexError, [Some None] = not ints *)
Fixpoint take_idx (l : list val) (idx : list val) : option (option (list val)) :=
  match idx with
  | [] => Some (Some [])
  | VZ j :: t =>
      match norm_index (List.length l) j with
      | Some k => match nth_val l k, take_idx l t with
                  | Some x, Some (Some r) => Some (Some (x :: r))
                  | Some _, o => o
                  | None, _ => None end
      | None => None
      end
  | _ :: _ => Some None
  end.

Section Eval.
(** functions of the same module that the fragment may call, given by their
    semantics (instantiated with [run] of their own serialised source), and
    library functions modelled by specification (stated where the table is
    defined) *)
Variable user : string -> option (list val -> option (option val)).

(** expression evaluation: [None] = stuck, [Some None] = raised *)
Fixpoint eval (env : list (string * val)) (e : expr) {struct e} : option (option val) :=
  let ret v := Some (Some v) in
  match e with
  | EVar x => match lookup env x with Some v => ret v | None => None end
  | EConst v => ret v
  | EBin op a b =>
      match eval env a, eval env b with
      | Some (Some x), Some (Some y) =>
          match binop_val op x y with
          | Some v => ret v
          | None => match binop_outer (arith op) x y with Some v => ret v | None => None end   (* (n, 1) op (m,) *)
          end
      | Some None, _ => Some None
      | Some (Some _), Some None => Some None
      | _, _ => None
      end
  | ENeg a =>
      match eval env a with
      | Some (Some (VZ z)) => ret (VZ (- z))
      | Some (Some (VQ q)) => ret (VQ (- q))
      | Some None => Some None
      | _ => None
      end
  | ECmp op a b =>
      match eval env a, eval env b with
      | Some (Some x), Some (Some y) => match cmp_bc op x y with Some r => ret r | None => None end
      | Some None, _ => Some None
      | Some (Some _), Some None => Some None
      | _, _ => None
      end
  | ENot a => match eval env a with
              | Some (Some v) => match truthy v with Some b => ret (VB (negb b)) | None => None end
              | Some None => Some None
              | None => None end
  | EAnd a b =>
      match eval env a with
      | Some (Some (VB false)) => ret (VB false)
      | Some (Some (VB true)) => match eval env b with Some (Some (VB r)) => ret (VB r) | Some None => Some None | _ => None end
      | Some None => Some None
      | _ => None
      end
  | EOr a b =>
      match eval env a with
      | Some (Some (VB true)) => ret (VB true)
      | Some (Some (VB false)) => match eval env b with Some (Some (VB r)) => ret (VB r) | Some None => Some None | _ => None end
      | Some None => Some None
      | _ => None
      end
  | EIsNone a neg =>
      match eval env a with
      | Some (Some VNone) => ret (VB (negb neg))
      | Some (Some _) => ret (VB neg)
      | Some None => Some None
      | None => None
      end
  | EIn a l neg =>
      match eval env a with
      | Some (Some x) =>
          (fix go (l : list expr) : option (option val) :=
             match l with
             | [] => ret (VB neg)
             | y :: t => match eval env y with
                         | Some (Some v) => match cmp_val CEq x v with
                                            | Some true => ret (VB (negb neg))
                                            | Some false => go t
                                            | None => None end
                         | Some None => Some None
                         | None => None end
             end) l
      | Some None => Some None
      | None => None
      end
  | ECall f args =>
      match (fix go (l : list expr) : option (option (list val)) :=
               match l with
               | [] => Some (Some [])
               | a :: t => match eval env a with
                           | Some (Some v) => match go t with Some (Some r) => Some (Some (v :: r)) | o => o end
                           | Some None => Some None
                           | None => None end
               end) args with
      | Some (Some vs) => match user f with Some g => g vs | None => call f vs end
      | Some None => Some None
      | None => None
      end
  | ETuple l =>
      match (fix go (l : list expr) : option (option (list val)) :=
               match l with
               | [] => Some (Some [])
               | a :: t => match eval env a with
                           | Some (Some v) => match go t with Some (Some r) => Some (Some (v :: r)) | o => o end
                           | Some None => Some None
                           | None => None end
               end) l with
      | Some (Some vs) => ret (VT vs)
      | Some None => Some None
      | None => None
      end
  | EList l =>
      match (fix go (l : list expr) : option (option (list val)) :=
               match l with
               | [] => Some (Some [])
               | a :: t => match eval env a with
                           | Some (Some v) => match go t with Some (Some r) => Some (Some (v :: r)) | o => o end
                           | Some None => Some None
                           | None => None end
               end) l with
      | Some (Some vs) => ret (VL vs)
      | Some None => Some None
      | None => None
      end
  | EComp k x it body =>
      match eval env it with
      | Some (Some v) =>
          match seq_of v with
          | Some vs => comp_loop k (fun v => eval ((x, v) :: env) body) vs
          | None => None
          end
      | Some None => Some None
      | None => None
      end
  | EIndex a i =>
      match eval env a with
      | Some (Some v) =>
          match seq_of v with
          | Some l => if (i <? 0)%Z then None else
                      match nth_val l (Z.to_nat i) with Some x => ret x | None => Some None end   (* IndexError *)
          | None => None
          end
      | Some None => Some None
      | None => None
      end
  | EIdx a i =>
      match eval env a, eval env i with
      | Some (Some v), Some (Some (VZ j)) =>
          match seq_of v with
          | Some l => match norm_index (List.length l) j with
                      | Some k => match nth_val l k with Some x => ret x | None => Some None end
                      | None => Some None end                                                     (* IndexError *)
          | None => None
          end
      | Some (Some (VA l)), Some (Some (VA idx)) =>          (* a[int array]: the elements at those positions *)
          match take_idx l idx with
          | Some (Some r) => ret (VA r)
          | None => Some None                                                                   (* IndexError *)
          | Some None => match mask_take l idx with Some r => ret (VA r) | None => None end    (* a[bool mask] *)
          end
      | Some None, _ => Some None
      | Some (Some _), Some None => Some None
      | Some (Some (VO c fs)), Some (Some k) =>
          (* d[k] of a dict with string keys (a missing key: KeyError); x[k] of any other object is the
             specification "getitem:<class>" of the [user] table *)
          if String.eqb c "dict" then
            match k with
            | VS key => match lookup fs key with Some v => ret v | None => Some None end
            | _ => None
            end
          else match user ("getitem:" ++ c) with Some g => g [VO c fs; k] | None => None end
      | _, _ => None
      end
  | ESliceTo a k =>
      match eval env a with
      | Some (Some (VL l)) => if (k =? -1)%Z then ret (VL (removelast l))
                              else if (0 <=? k)%Z then ret (VL (firstn (Z.to_nat k) l)) else None
      | Some (Some (VT l)) => if (k =? -1)%Z then ret (VT (removelast l))
                              else if (0 <=? k)%Z then ret (VT (firstn (Z.to_nat k) l)) else None
      | Some (Some (VA l)) => if (k =? -1)%Z then ret (VA (removelast l))
                              else if (0 <=? k)%Z then ret (VA (firstn (Z.to_nat k) l)) else None
      | Some None => Some None
      | _ => None
      end
  | ESliceFrom a k =>
      match eval env a with
      | Some (Some (VL l)) => if (0 <=? k)%Z then ret (VL (skipn (Z.to_nat k) l)) else None
      | Some (Some (VT l)) => if (0 <=? k)%Z then ret (VT (skipn (Z.to_nat k) l)) else None
      | Some (Some (VA l)) => if (0 <=? k)%Z then ret (VA (skipn (Z.to_nat k) l)) else None
      | Some None => Some None
      | _ => None
      end
  | ECallStar f args star =>
      match (fix go (l : list expr) : option (option (list val)) :=
               match l with
               | [] => Some (Some [])
               | a :: t => match eval env a with
                           | Some (Some v) => match go t with Some (Some r) => Some (Some (v :: r)) | o => o end
                           | Some None => Some None
                           | None => None end
               end) args with
      | Some (Some vs) =>
          match eval env star with
          | Some (Some sv) =>
              match seq_of sv with
              | Some extra => match user f with Some g => g (vs ++ extra)%list | None => call f (vs ++ extra)%list end
              | None => None
              end
          | Some None => Some None
          | None => None
          end
      | Some None => Some None
      | None => None
      end
  | ECompT k targets it body =>
      match eval env it with
      | Some (Some v) =>
          match seq_of v with
          | Some vs => comp_loop k (fun v => match comp_bind targets v env with
                                             | inl env' => eval env' body
                                             | inr true => Some None
                                             | inr false => None end) vs
          | None => None
          end
      | Some None => Some None
      | None => None
      end
  | ESliceToE a k =>
      match eval env a, eval env k with
      | Some (Some v), Some (Some (VZ n)) =>
          if (n <? 0)%Z then None else
          match v with
          | VL l => ret (VL (firstn (Z.to_nat n) l))
          | VT l => ret (VT (firstn (Z.to_nat n) l))
          | VA l => ret (VA (firstn (Z.to_nat n) l))
          | _ => None
          end
      | Some None, _ => Some None
      | Some (Some _), Some None => Some None
      | _, _ => None
      end
  | ECallV x args =>
      match lookup env x with
      | Some fv =>
          match fn_name fv with
          | Some f =>
              match (fix go (l : list expr) : option (option (list val)) :=
                       match l with
                       | [] => Some (Some [])
                       | a :: t => match eval env a with
                                   | Some (Some v) => match go t with Some (Some r) => Some (Some (v :: r)) | o => o end
                                   | Some None => Some None
                                   | None => None end
                       end) args with
              | Some (Some vs) => match user f with Some g => g vs | None => call f vs end
              | Some None => Some None
              | None => None
              end
          | None => None
          end
      | None => None
      end
  end.

Fixpoint bind_targets (targets : list string) (vs : list val) (env : list (string * val))
  : option (list (string * val)) :=
  match targets, vs with
  | [], [] => Some env
  | x :: t, v :: r => bind_targets t r ((x, v) :: env)
  | _, _ => None
  end.

(** binding the target(s) of an assignment / a loop to a value:
    [inr true] = ValueError (wrong number of values), [inr false] = stuck *)
Definition bind_pattern (targets : list string) (v : val) (env : list (string * val))
  : list (string * val) + bool :=
  match targets with
  | [x] => inl ((x, v) :: env)
  | _ => match seq_of v with
         | Some vs => match bind_targets targets vs env with Some env' => inl env' | None => inr true end
         | None => inr false
         end
  end.

(** x[i] = v *)
Definition set_item (a : val) (i : Z) (v : val) : option (option val) :=
  match a with
  | VL l => match norm_index (List.length l) i with
            | Some k => match set_nth l k v with Some l' => Some (Some (VL l')) | None => Some None end
            | None => Some None end
  | VA l => match norm_index (List.length l) i with
            | Some k => match nth_val l k with
                        | Some old => match store_cast l old v with
                                      | Some v' => match set_nth l k v' with Some l' => Some (Some (VA l')) | None => None end
                                      | None => None end
                        | None => Some None end
            | None => Some None end
  | _ => None
  end.

(** x[:k] = v *)
Definition set_slice_to (a : val) (k : Z) (v : val) : option (option val) :=
  if (k <? 0)%Z then None else
  match a with
  | VL l => match seq_of v with Some r => Some (Some (VL (r ++ skipn (Z.to_nat k) l))) | None => None end
  | VA l => match store_cast l (VA (firstn (Z.to_nat k) l)) v with
            | Some (VA r) => Some (Some (VA (r ++ skipn (Z.to_nat k) l)))
            | _ => None end
  | _ => None
  end.

(** x[:, j] = v: element k of the 1-D array v goes to row k, column j (cast to the array's type, as
    [set_item] does).  An array without rows has lost its number of columns (numpy raises IndexError for
    j out of range even then), and a scalar or shorter v would broadcast: outside the fragment *)
Fixpoint set_col_rows (rows vs : list val) (j : Z) : option (option (list val)) :=
  match rows, vs with
  | [], [] => Some (Some [])
  | VA r :: rows', x :: vs' =>
      match set_item (VA r) j x with
      | Some (Some r') => match set_col_rows rows' vs' j with
                          | Some (Some t) => Some (Some (r' :: t))
                          | o => o end
      | Some None => Some None
      | None => None
      end
  | _, _ => None
  end.

Definition set_col (a : val) (j : Z) (v : val) : option (option val) :=
  match a, v with
  | VA (r :: rows), VA vs => match set_col_rows (r :: rows) vs j with
                             | Some (Some t) => Some (Some (VA t))
                             | Some None => Some None
                             | None => None end
  | _, _ => None
  end.

Fixpoint exec (s : stmt) (env : list (string * val)) {struct s} : outcome :=
  let run_list :=
    fix run_list (l : list stmt) (env : list (string * val)) : outcome :=
      match l with
      | [] => Normal env
      | s :: t => match exec s env with Normal env' => run_list t env' | o => o end
      end in
  match s with
  | SAssign targets e =>
      match eval env e with
      | Some (Some v) => match bind_pattern targets v env with
                         | inl env' => Normal env'
                         | inr true => Raised
                         | inr false => Stuck end
      | Some None => Raised
      | None => Stuck
      end
  | SAug x op e =>
      match lookup env x, eval env e with
      | Some a, Some (Some b) => match binop_val op a b with Some v => Normal ((x, v) :: env) | None => Stuck end
      | Some _, Some None => Raised
      | _, _ => Stuck
      end
  | SIf c th el =>
      match eval env c with
      | Some (Some v) => match truthy v with
                         | Some true => run_list th env
                         | Some false => run_list el env
                         | None => Stuck end
      | Some None => Raised
      | None => Stuck
      end
  | SFor targets it body =>
      match eval env it with
      | Some (Some v) =>
          match seq_of v with
          | Some vs =>
              (fix loop (vs : list val) (env : list (string * val)) : outcome :=
                 match vs with
                 | [] => Normal env
                 | v :: t => match bind_pattern targets v env with
                             | inl env' => match run_list body env' with Normal env'' => loop t env'' | o => o end
                             | inr true => Raised
                             | inr false => Stuck end
                 end) vs env
          | None => Stuck
          end
      | Some None => Raised
      | None => Stuck
      end
  | SAppend x e =>
      match lookup env x, eval env e with
      | Some (VL l), Some (Some v) => Normal ((x, VL (l ++ [v])) :: env)
      | Some _, Some None => Raised
      | _, _ => Stuck
      end
  | SSetItem x i e =>
      match lookup env x, eval env i, eval env e with
      | Some a, Some (Some (VZ j)), Some (Some v) =>
          match set_item a j v with
          | Some (Some a') => Normal ((x, a') :: env)
          | Some None => Raised
          | None => Stuck end
      | Some _, Some None, _ => Raised
      | Some _, Some (Some _), Some None => Raised
      | Some (VA l), Some (Some (VA m)), Some (Some v) =>      (* x[bool mask] = v, v a 1-D array with one element per True *)
          match mask_take l m with
          | Some old =>
              match store_cast l (VA old) v with
              | Some (VA vs) => match mask_put l m vs with Some l' => Normal ((x, VA l') :: env) | None => Stuck end
              | _ => Stuck
              end
          | None => Stuck
          end
      | Some (VO c fs), Some (Some k), Some (Some v) =>
          (* d[k] = v on a dict with string keys; x[k] = v on any other object is the specification
             "setitem:<class>" of the [user] table, which returns the object's new state *)
          if String.eqb c "dict" then
            match k with
            | VS key => Normal ((x, VO c (dict_set fs key v)) :: env)
            | _ => Stuck
            end
          else match user ("setitem:" ++ c) with
               | Some g => match g [VO c fs; k; v] with
                           | Some (Some o') => Normal ((x, o') :: env)
                           | Some None => Raised
                           | None => Stuck end
               | None => Stuck
               end
      | _, _, _ => Stuck
      end
  | SAugItem x i op e =>
      match lookup env x, eval env i, eval env e with
      | Some a, Some (Some (VZ j)), Some (Some v) =>
          match seq_of a with
          | Some l =>
              match norm_index (List.length l) j with
              | Some k =>
                  match nth_val l k with
                  | Some old =>
                      match binop_val op old v with
                      | Some nv => match set_item a j nv with
                                   | Some (Some a') => Normal ((x, a') :: env)
                                   | Some None => Raised
                                   | None => Stuck end
                      | None => Stuck
                      end
                  | None => Raised
                  end
              | None => Raised                                  (* IndexError *)
              end
          | None => Stuck
          end
      | Some _, Some None, _ => Raised
      | Some _, Some (Some _), Some None => Raised
      | _, _, _ => Stuck
      end
  | SSetSlice x k e =>
      match lookup env x, eval env e with
      | Some a, Some (Some v) =>
          match set_slice_to a k v with
          | Some (Some a') => Normal ((x, a') :: env)
          | Some None => Raised
          | None => Stuck end
      | Some _, Some None => Raised
      | _, _ => Stuck
      end
  | SSetAttr x a e =>
      match lookup env x, eval env e with
      | Some (VO c fs), Some (Some v) => Normal ((x, VO c ((a, v) :: fs)) :: env)
      | Some _, Some None => Raised
      | _, _ => Stuck
      end
  | SExpr e => match eval env e with Some (Some _) => Normal env | Some None => Raised | None => Stuck end
  | SRaise => Raised
  | SReturn e => match eval env e with Some (Some v) => Returned v | Some None => Raised | None => Stuck end
  | SPass => Normal env
  | SMethod x m args =>
      match lookup env x, eval env (ETuple args) with
      | Some self, Some (Some (VT vs)) =>
          match user ("mut:" ++ m) with
          | Some g => match g (self :: vs) with
                      | Some (Some self') => Normal ((x, self') :: env)
                      | Some None => Raised
                      | None => Stuck end
          | None => Stuck
          end
      | Some _, Some None => Raised
      | _, _ => Stuck
      end
  | SSetCol x i e =>
      match lookup env x, eval env i, eval env e with
      | Some a, Some (Some (VZ j)), Some (Some v) =>
          match set_col a j v with
          | Some (Some a') => Normal ((x, a') :: env)
          | Some None => Raised
          | None => Stuck end
      | Some _, Some None, _ => Raised
      | Some _, Some (Some _), Some None => Raised
      | _, _, _ => Stuck
      end
  | SCallSt t x f args =>
      match lookup env x, eval env (ETuple args) with
      | Some st, Some (Some (VT vs)) =>
          match (match user f with Some g => g (st :: vs) | None => call f (st :: vs) end) with
          | Some (Some (VT [r; st'])) => Normal ((t, r) :: (x, st') :: env)
          | Some None => Raised
          | _ => Stuck
          end
      | Some _, Some None => Raised
      | _, _ => Stuck
      end
  | SYield e =>
      match lookup env "$yield", eval env e with
      | Some (VL l), Some (Some v) => Normal (("$yield", VL (l ++ [v])) :: env)
      | Some (VL _), Some None => Raised
      | _, _ => Stuck
      end
  | STry body handler =>
      match run_list body env with
      | Raised => run_list handler env
      | o => o
      end
  | SLog f args =>
      match lookup env "$log", eval env (ETuple args) with
      | Some (VL l), Some (Some (VT vs)) => Normal (("$log", VL (l ++ [VT (VS f :: vs)])) :: env)
      | Some (VL _), Some None => Raised
      | _, _ => Stuck
      end
  end.

Fixpoint exec_list (l : list stmt) (env : list (string * val)) : outcome :=
  match l with
  | [] => Normal env
  | s :: t => match exec s env with Normal env' => exec_list t env' | o => o end
  end.

(** the statement lists inside [exec] run as [exec_list] *)
Lemma run_list_exec_list l : forall env,
  (fix run_list (l : list stmt) (env : list (string * val)) : outcome :=
     match l with
     | [] => Normal env
     | s :: t => match exec s env with Normal env' => run_list t env' | o => o end
     end) l env = exec_list l env.
Proof.
  induction l as [|a t IH]; intros env; [reflexivity|].
  cbn [exec_list]. destruct (exec a env); reflexivity.
Qed.

(** the loop of [SFor], as a function of its own *)
Fixpoint for_loop (targets : list string) (body : list stmt) (vs : list val) (env : list (string * val)) : outcome :=
  match vs with
  | [] => Normal env
  | v :: t => match bind_pattern targets v env with
              | inl env' => match exec_list body env' with Normal env'' => for_loop targets body t env'' | o => o end
              | inr true => Raised
              | inr false => Stuck end
  end.

Lemma exec_SFor targets it body env :
  exec (SFor targets it body) env =
  match eval env it with
  | Some (Some v) => match seq_of v with Some vs => for_loop targets body vs env | None => Stuck end
  | Some None => Raised
  | None => Stuck
  end.
Proof.
  cbn [exec]. destruct (eval env it) as [[v|]|]; try reflexivity.
  destruct (seq_of v) as [vs|]; try reflexivity.
  generalize env. induction vs as [|x t IH]; intros env0; [reflexivity|].
  cbn [for_loop]. destruct (bind_pattern targets x env0) as [env'|[|]]; try reflexivity.
  change ((fix run_list (l : list stmt) (env : list (string * val)) {struct l} : outcome :=
             match l with
             | [] => Normal env
             | s :: t => match exec s env with Normal env' => run_list t env' | o => o end
             end) body env') with (exec_list body env').
  destruct (exec_list body env'); try reflexivity. apply IH.
Qed.

Lemma exec_SIf c th el env :
  exec (SIf c th el) env =
  match eval env c with
  | Some (Some v) => match truthy v with
                     | Some true => exec_list th env
                     | Some false => exec_list el env
                     | None => Stuck end
  | Some None => Raised
  | None => Stuck
  end.
Proof.
  reflexivity.
Qed.

Lemma exec_STry body handler env :
  exec (STry body handler) env =
  match exec_list body env with
  | Raised => exec_list handler env
  | o => o
  end.
Proof.
  cbn [exec]. rewrite !run_list_exec_list. reflexivity.
Qed.

(** calling a function: falling off the end returns None *)
Definition run (f : func) (args : list val) : outcome :=
  match bind_targets (f_params f) args [] with
  | None => Stuck
  | Some env =>
      match exec_list (f_body f) env with
      | Normal _ => Returned VNone
      | o => o
      end
  end.

(** calling with keyword arguments: the positional arguments bind the first
    parameters, the keyword arguments (the last [length kws] values) bind the
    parameters of those names; every parameter must be bound exactly once
    (defaults are not modelled) *)
Definition run_kw (f : func) (kws : list string) (args : list val) : outcome :=
  let npos := (List.length args - List.length kws)%nat in
  let names := (firstn npos (f_params f) ++ kws)%list in
  if Nat.eqb (List.length names) (List.length (f_params f)) &&
     forallb (fun p => existsb (String.eqb p) names) (f_params f)
  then match bind_targets names args [] with
       | None => Stuck
       | Some env =>
           match exec_list (f_body f) env with
           | Normal _ => Returned VNone
           | o => o
           end
       end
  else Stuck.

(** calling a generator function and consuming it to the end: the list of the yielded values.
    An exception raised before the generator is exhausted propagates to the consumer ([Raised]; the
    values yielded before it are not observed); `return` ends the generator. *)
Definition run_gen (f : func) (args : list val) : outcome :=
  match bind_targets (f_params f) args [("$yield", VL [])] with
  | None => Stuck
  | Some env =>
      match exec_list (f_body f) env with
      | Normal env' => match lookup env' "$yield" with Some v => Returned v | None => Stuck end
      | Returned _ => Stuck      (* `return` inside a generator: not needed so far, kept outside the fragment *)
      | o => o
      end
  end.

(** the same, with the log of the effect calls: returns (yielded values, log) *)
Definition run_gen_log (f : func) (args : list val) : outcome :=
  match bind_targets (f_params f) args [("$yield", VL []); ("$log", VL [])] with
  | None => Stuck
  | Some env =>
      match exec_list (f_body f) env with
      | Normal env' => match lookup env' "$yield", lookup env' "$log" with
                       | Some y, Some l => Returned (VT [y; l])
                       | _, _ => Stuck end
      | Returned _ => Stuck
      | o => o
      end
  end.

(** calling a function that logs effect calls ([SLog], warnings.warn): returns the pair
    (result, log), the log being read in the environment in which the TOP-LEVEL statement that returned
    started (entries logged inside that last statement itself are not observed; in the functions tied so
    far the [SLog]s and the final `return` are top-level statements).  Falling off the end returns None
    with the complete log. *)
Fixpoint exec_list_log (l : list stmt) (env : list (string * val)) : outcome :=
  match l with
  | [] => match lookup env "$log" with Some lg => Returned (VT [VNone; lg]) | None => Stuck end
  | s :: t => match exec s env with
              | Normal env' => exec_list_log t env'
              | Returned v => match lookup env "$log" with Some lg => Returned (VT [v; lg]) | None => Stuck end
              | o => o
              end
  end.

Definition run_log (f : func) (args : list val) : outcome :=
  match bind_targets (f_params f) args [("$log", VL [])] with
  | None => Stuck
  | Some env => exec_list_log (f_body f) env
  end.

End Eval.

Definition no_user : string -> option (list val -> option (option val)) := fun _ => None.

(** a callee's outcome as seen by its caller *)
Definition as_callee (o : outcome) : option (option val) :=
  match o with
  | Returned v => Some (Some v)
  | Raised => Some None
  | _ => None
  end.

(** equality of values / outcomes up to [Qeq] on the floats (Q is not
    canonical); [Stuck] and [Normal] equal nothing *)
Fixpoint val_eqb (a b : val) : bool :=
  match a, b with
  | VNone, VNone => true
  | VB x, VB y => Bool.eqb x y
  | VZ x, VZ y => (x =? y)%Z
  | VQ x, VQ y => Qeqb x y
  | VS x, VS y => String.eqb x y
  | VL l, VL r =>
      (fix go (l r : list val) : bool :=
         match l, r with
         | [], [] => true
         | x :: l', y :: r' => val_eqb x y && go l' r'
         | _, _ => false
         end) l r
  | VT l, VT r =>
      (fix go (l r : list val) : bool :=
         match l, r with
         | [], [] => true
         | x :: l', y :: r' => val_eqb x y && go l' r'
         | _, _ => false
         end) l r
  | VA l, VA r =>
      (fix go (l r : list val) : bool :=
         match l, r with
         | [], [] => true
         | x :: l', y :: r' => val_eqb x y && go l' r'
         | _, _ => false
         end) l r
  | _, _ => false
  end.

Definition outcome_eqb (a b : outcome) : bool :=
  match a, b with
  | Returned x, Returned y => val_eqb x y
  | Raised, Raised => true
  | _, _ => false
  end.
