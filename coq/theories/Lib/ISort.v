(** Generic insertion sort with a boolean total preorder: permutation and
    strong sortedness, plus the list facts used by the nearest-neighbour
    model (prefix of a sorted list is below its suffix, row-major indexing). *)
From Coq Require Import List Bool Arith Lia Permutation Sorted.
Import ListNotations.

Section ISort.
  Context {A : Type} (leb : A -> A -> bool).

  Fixpoint insert (x : A) (l : list A) : list A :=
    match l with
    | [] => [x]
    | y :: t => if leb x y then x :: l else y :: insert x t
    end.

  Definition isort (l : list A) : list A := fold_right insert [] l.

  Lemma insert_perm x l : Permutation (insert x l) (x :: l).
  Proof.
    induction l as [|y t IH]; cbn; [reflexivity|].
    destruct (leb x y); [reflexivity|].
    rewrite IH. apply perm_swap.
  Qed.

  Lemma isort_perm l : Permutation (isort l) l.
  Proof.
    induction l as [|x t IH]; cbn; [reflexivity|].
    rewrite insert_perm. now rewrite IH.
  Qed.

  Lemma isort_length l : length (isort l) = length l.
  Proof. apply Permutation_length, isort_perm. Qed.

  Hypothesis leb_total : forall a b, leb a b = false -> leb b a = true.
  Hypothesis leb_trans : forall a b c, leb a b = true -> leb b c = true -> leb a c = true.

  Let le a b := leb a b = true.

  Lemma insert_sorted x l : StronglySorted le l -> StronglySorted le (insert x l).
  Proof.
    induction l as [|y t IH]; intros S; cbn.
    - constructor; constructor.
    - destruct (leb x y) eqn:E.
      + constructor; [exact S|]. constructor; [exact E|].
        inversion S as [|? ? _ F]; subst.
        eapply Forall_impl; [|exact F]. intros z Hz. eapply leb_trans; eassumption.
      + inversion S as [|? ? S' F]; subst. constructor; [apply IH; exact S'|].
        apply Forall_forall. intros z Hz.
        apply (Permutation_in _ (insert_perm x t)) in Hz. destruct Hz as [<-|Hz].
        * apply leb_total; exact E.
        * rewrite Forall_forall in F. apply F; exact Hz.
  Qed.

  Lemma isort_sorted l : StronglySorted le (isort l).
  Proof.
    induction l as [|x t IH]; cbn; [constructor|]. apply insert_sorted; exact IH.
  Qed.
End ISort.

(** every element of a prefix of a strongly sorted list is below every element of the rest *)
Lemma StronglySorted_app_le {A} (R : A -> A -> Prop) l1 l2 :
  StronglySorted R (l1 ++ l2) -> forall x y, In x l1 -> In y l2 -> R x y.
Proof.
  induction l1 as [|a t IH]; intros S x y Hx Hy; [destruct Hx|].
  cbn in S. inversion S as [|? ? S' F]; subst. destruct Hx as [<-|Hx].
  - rewrite Forall_forall in F. apply F. apply in_or_app. right; exact Hy.
  - eapply IH; eassumption.
Qed.

Lemma StronglySorted_app_l {A} (R : A -> A -> Prop) l1 l2 :
  StronglySorted R (l1 ++ l2) -> StronglySorted R l1.
Proof.
  induction l1 as [|a t IH]; intros S; [constructor|].
  cbn in S. inversion S as [|? ? S' F]; subst. constructor; [apply IH; exact S'|].
  rewrite Forall_forall in *. intros z Hz. apply F. apply in_or_app. left; exact Hz.
Qed.

Lemma StronglySorted_firstn {A} (R : A -> A -> Prop) k l :
  StronglySorted R l -> StronglySorted R (firstn k l).
Proof.
  intros S. rewrite <- (firstn_skipn k l) in S. eapply StronglySorted_app_l; exact S.
Qed.

Lemma StronglySorted_map {A B} (R : A -> A -> Prop) (R' : B -> B -> Prop) (f : A -> B) l :
  (forall x y, In x l -> In y l -> R x y -> R' (f x) (f y)) ->
  StronglySorted R l -> StronglySorted R' (map f l).
Proof.
  induction l as [|a t IH]; intros H S; cbn; [constructor|].
  inversion S as [|? ? S' F]; subst. constructor.
  - apply IH; [|exact S']. intros x y Hx Hy. apply H; right; assumption.
  - rewrite Forall_forall in *. intros z Hz. apply in_map_iff in Hz as [w [<- Hw]].
    apply H; [left; reflexivity|right; exact Hw|apply F; exact Hw].
Qed.

Lemma StronglySorted_nth {A} (R : A -> A -> Prop) l d :
  StronglySorted R l -> forall a b, (a < b < length l)%nat -> R (nth a l d) (nth b l d).
Proof.
  induction l as [|x t IH]; intros S a b H; [cbn in H; lia|].
  inversion S as [|? ? S' F]; subst. destruct b as [|b]; [lia|]. destruct a as [|a]; cbn.
  - rewrite Forall_forall in F. apply F. apply nth_In. cbn in H; lia.
  - apply IH; [exact S'|cbn in H; lia].
Qed.

(** either a list is included in another or it has a witness outside *)
Lemma incl_or_witness (A B : list nat) :
  incl B A \/ exists y, In y B /\ ~ In y A.
Proof.
  induction B as [|b t IH]; [left; intros x []|].
  destruct (in_dec Nat.eq_dec b A) as [Hb|Hb].
  - destruct IH as [IH|[y [Hy Hn]]].
    + left. intros x [<-|Hx]; [exact Hb|apply IH; exact Hx].
    + right. exists y. split; [right; exact Hy|exact Hn].
  - right. exists b. split; [left; reflexivity|exact Hb].
Qed.

(** row-major indexing of a flat_map with rows of constant length *)
Lemma nth_flat_map_rows {A B} (f : A -> list B) (w : nat) (l : list A) (da : A) (db : B) :
  (forall a, length (f a) = w) ->
  forall i j, (i < length l)%nat -> (j < w)%nat ->
  nth (i * w + j) (flat_map f l) db = nth j (f (nth i l da)) db.
Proof.
  intros Hw. induction l as [|a t IH]; intros i j Hi Hj; [cbn in Hi; lia|].
  cbn [flat_map]. destruct i as [|i].
  - cbn [Nat.mul Nat.add nth]. rewrite app_nth1 by (rewrite Hw; exact Hj). reflexivity.
  - rewrite app_nth2 by (rewrite Hw; cbn; lia). rewrite Hw.
    replace (S i * w + j - w)%nat with (i * w + j)%nat by (cbn; lia).
    cbn [nth]. apply IH; [cbn in Hi; lia|exact Hj].
Qed.

Lemma length_flat_map_rows {A B} (f : A -> list B) (w : nat) (l : list A) :
  (forall a, length (f a) = w) -> length (flat_map f l) = (length l * w)%nat.
Proof.
  intros Hw. induction l as [|a t IH]; [reflexivity|].
  cbn [flat_map]. rewrite app_length, Hw, IH. cbn. lia.
Qed.
