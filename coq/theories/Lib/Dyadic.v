(** Exact transfer of IEEE doubles into Coq and dyadic arithmetic.

    Every finite double is [m * 2^e] for integers [m], [e].  The harness writes
    floats as primitive hexadecimal float literals; [ofF] turns them into that
    pair with the standard library's [Prim2SF]; [D2Q] embeds the pair in [Q].
    [dadd], [dmul], ... compute on pairs and are proved to commute with [D2Q],
    so a check executed on dyadics *is* the rational predicate the theorems
    are about.  No theorem in Props/ depends on PrimFloat; it is used by the
    generated case files only. *)
From Coq Require Import ZArith QArith Qabs Qpower Lia Lqa List PrimFloat FloatOps SpecFloat.
Import ListNotations.

Definition D := (Z * Z)%type.  (* (m, e) denotes m * 2^e *)

Definition ofF (f : float) : D :=
  match Prim2SF f with
  | S754_finite s m e => ((if s then Z.neg m else Z.pos m), e)
  | _ => (0, 0)%Z
  end.

(** non-finite doubles never reach [ofF]: the emitter writes them as tags *)
Definition finiteF (f : float) : bool :=
  match Prim2SF f with
  | S754_finite _ _ _ | S754_zero _ => true
  | _ => false
  end.

Definition pow2 (e : Z) : Q := Qpower (2 # 1) e.

Definition D2Q (d : D) : Q := inject_Z (fst d) * pow2 (snd d).

Definition QofF (f : float) : Q := D2Q (ofF f).

Open Scope Z_scope.

Definition dadd (a b : D) : D :=
  let '(m1, e1) := a in
  let '(m2, e2) := b in
  if e1 <=? e2 then (m1 + m2 * 2 ^ (e2 - e1), e1)
  else (m1 * 2 ^ (e1 - e2) + m2, e2).
Definition dopp (a : D) : D := (- fst a, snd a).
Definition dsub (a b : D) : D := dadd a (dopp b).
Definition dmul (a b : D) : D := (fst a * fst b, snd a + snd b).
Definition dabs (a : D) : D := (Z.abs (fst a), snd a).
Definition dsgn (a : D) : Z := Z.sgn (fst a).
Definition dle (a b : D) : bool := fst (dsub a b) <=? 0.
Definition dlt (a b : D) : bool := fst (dsub a b) <? 0.
Definition deq (a b : D) : bool := fst (dsub a b) =? 0.
Definition d0 : D := (0, 0).
Definition d1 : D := (1, 0).
Definition dZ (z : Z) : D := (z, 0).
Definition dpow2 (e : Z) : D := (1, e).

(** normalise: strip trailing zero bits of the mantissa (keeps numbers small
    in long accumulations; value preserving) *)
Fixpoint strip_pos (fuel : nat) (p : positive) (e : Z) : positive * Z :=
  match fuel, p with
  | S k, xO q => strip_pos k q (e + 1)
  | _, _ => (p, e)
  end.
Definition dnorm (a : D) : D :=
  match fst a with
  | Z0 => (0, 0)
  | Zpos p => let '(q, e) := strip_pos (Pos.to_nat (Pos.size p)) p (snd a) in (Zpos q, e)
  | Zneg p => let '(q, e) := strip_pos (Pos.to_nat (Pos.size p)) p (snd a) in (Zneg q, e)
  end.

(** what the harness emits for a finite double: a primitive hexadecimal float
    literal converted exactly (and normalised) inside vm_compute.  Parsing a
    float literal is ten times cheaper than parsing a (mantissa, exponent)
    pair of integer literals. *)
Definition DF (f : float) : D := dnorm (ofF f).

Close Scope Z_scope.
Open Scope Q_scope.

Lemma pow2_pos e : 0 < pow2 e.
Proof. unfold pow2. apply Qpower_0_lt. reflexivity. Qed.

Lemma pow2_add a b : pow2 (a + b) == pow2 a * pow2 b.
Proof. unfold pow2. apply Qpower_plus. discriminate. Qed.

Lemma pow2_Z k : (0 <= k)%Z -> inject_Z (2 ^ k) == pow2 k.
Proof. intros Hk. unfold pow2. rewrite Zpower_Qpower by assumption. reflexivity. Qed.

Lemma D2Q_add a b : D2Q (dadd a b) == D2Q a + D2Q b.
Proof.
  destruct a as [m1 e1], b as [m2 e2]. unfold dadd, D2Q.
  destruct (Z.leb_spec e1 e2) as [H|H]; cbn [fst snd].
  - rewrite inject_Z_plus, inject_Z_mult, pow2_Z by lia.
    replace e2 with ((e2 - e1) + e1)%Z at 2 by lia. rewrite pow2_add. ring.
  - rewrite inject_Z_plus, inject_Z_mult, pow2_Z by lia.
    replace e1 with ((e1 - e2) + e2)%Z at 2 by lia. rewrite pow2_add. ring.
Qed.

Lemma D2Q_opp a : D2Q (dopp a) == - D2Q a.
Proof. destruct a as [m e]. unfold dopp, D2Q; cbn [fst snd]. rewrite inject_Z_opp. ring. Qed.

Lemma D2Q_sub a b : D2Q (dsub a b) == D2Q a - D2Q b.
Proof. unfold dsub. rewrite D2Q_add, D2Q_opp. ring. Qed.

Lemma D2Q_mul a b : D2Q (dmul a b) == D2Q a * D2Q b.
Proof.
  destruct a as [m1 e1], b as [m2 e2]. unfold dmul, D2Q; cbn [fst snd].
  rewrite inject_Z_mult, pow2_add. ring.
Qed.

Lemma D2Q_abs a : D2Q (dabs a) == Qabs (D2Q a).
Proof.
  destruct a as [m e]. unfold dabs, D2Q; cbn [fst snd].
  rewrite Qabs_Qmult. rewrite (Qabs_pos (pow2 e)) by (apply Qlt_le_weak, pow2_pos).
  apply Qmult_comp; [|reflexivity].
  unfold Qabs, inject_Z. reflexivity.
Qed.

Lemma D2Q_sign_le a : (fst a <= 0)%Z <-> D2Q a <= 0.
Proof.
  destruct a as [m e]. unfold D2Q; cbn [fst snd]. pose proof (pow2_pos e) as Hp.
  split; intros H.
  - assert (inject_Z m <= 0) by (rewrite Zle_Qle in H; exact H). nra.
  - rewrite Zle_Qle. change (inject_Z 0) with 0.
    destruct (Qlt_le_dec 0 (inject_Z m)) as [Hc|Hc]; [|exact Hc]. exfalso. nra.
Qed.

Lemma D2Q_sign_lt a : (fst a < 0)%Z <-> D2Q a < 0.
Proof.
  destruct a as [m e]. unfold D2Q; cbn [fst snd]. pose proof (pow2_pos e) as Hp.
  split; intros H.
  - assert (inject_Z m < 0) by (rewrite Zlt_Qlt in H; exact H). nra.
  - rewrite Zlt_Qlt. change (inject_Z 0) with 0.
    destruct (Qlt_le_dec (inject_Z m) 0) as [Hc|Hc]; [exact Hc|]. exfalso. nra.
Qed.

Lemma dle_spec a b : dle a b = true <-> D2Q a <= D2Q b.
Proof.
  unfold dle. rewrite Z.leb_le, D2Q_sign_le, D2Q_sub. split; intros; lra.
Qed.

Lemma dlt_spec a b : dlt a b = true <-> D2Q a < D2Q b.
Proof.
  unfold dlt. rewrite Z.ltb_lt, D2Q_sign_lt, D2Q_sub. split; intros; lra.
Qed.

Lemma D2Q_sign_eq a : (fst a = 0)%Z <-> D2Q a == 0.
Proof.
  split; intros H.
  - assert (H1: D2Q a <= 0) by (apply D2Q_sign_le; lia).
    destruct (Qlt_le_dec (D2Q a) 0) as [Hc|Hc]; [|lra].
    apply D2Q_sign_lt in Hc. lia.
  - assert (H1: (fst a <= 0)%Z) by (apply D2Q_sign_le; lra).
    destruct (Z.eq_dec (fst a) 0) as [E|E]; [exact E|].
    assert (H2: (fst a < 0)%Z) by lia. apply D2Q_sign_lt in H2. lra.
Qed.

Lemma deq_spec a b : deq a b = true <-> D2Q a == D2Q b.
Proof.
  unfold deq. rewrite Z.eqb_eq, D2Q_sign_eq, D2Q_sub. split; intros; lra.
Qed.

Lemma D2Q_Z z : D2Q (dZ z) == inject_Z z.
Proof. unfold D2Q, dZ, pow2; cbn [fst snd]. cbn. ring. Qed.

Lemma D2Q_pow2 e : D2Q (dpow2 e) == pow2 e.
Proof. unfold D2Q, dpow2; cbn [fst snd]. ring. Qed.

(** sums and dot products on dyadics *)
Fixpoint dsum (l : list D) : D :=
  match l with [] => d0 | x :: t => dadd x (dsum t) end.
Fixpoint Qsum (l : list Q) : Q :=
  match l with [] => 0 | x :: t => x + Qsum t end.
Lemma D2Q_sum l : D2Q (dsum l) == Qsum (map D2Q l).
Proof.
  induction l as [|x t IH]; cbn [dsum map Qsum].
  - reflexivity.
  - rewrite D2Q_add, IH. reflexivity.
Qed.
