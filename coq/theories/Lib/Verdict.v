(** Verdicts returned by generated case files.

    [agree]: the model's output equals the implementation's observed output
    (up to the canonicalisation / tolerance stated for the property);
    [holds]: the decidable form of the property's statement is true of the
    implementation's observed output. *)
From Coq Require Import String Ascii List Bool.
Import ListNotations.

Inductive verdict := Vok | Vdis | Vviol | Vboth | Vskip.

Definition mk_verdict (agree holds : bool) : verdict :=
  match agree, holds with
  | true, true => Vok
  | false, true => Vdis
  | true, false => Vviol
  | false, false => Vboth
  end.

(** a near-tie case: excluded from equality, but [holds] is still required *)
Definition mk_verdict_tie (tie agree holds : bool) : verdict :=
  if holds then (if tie then Vskip else if agree then Vok else Vdis)
  else if agree || tie then Vviol else Vboth.

Definition show1 (v : verdict) : ascii :=
  match v with
  | Vok => "a" | Vdis => "d" | Vviol => "v" | Vboth => "x" | Vskip => "t"
  end%char.

Fixpoint show_verdicts (l : list verdict) : string :=
  match l with
  | [] => EmptyString
  | v :: t => String (show1 v) (show_verdicts t)
  end.

(** small decidable helpers used by case files *)
Fixpoint list_eqb {A} (eqb : A -> A -> bool) (l1 l2 : list A) : bool :=
  match l1, l2 with
  | [], [] => true
  | x :: t1, y :: t2 => eqb x y && list_eqb eqb t1 t2
  | _, _ => false
  end.

Definition option_eqb {A} (eqb : A -> A -> bool) (o1 o2 : option A) : bool :=
  match o1, o2 with
  | None, None => true
  | Some x, Some y => eqb x y
  | _, _ => false
  end.

Lemma list_eqb_spec {A} (eqb : A -> A -> bool) :
  (forall x y, eqb x y = true <-> x = y) ->
  forall l1 l2, list_eqb eqb l1 l2 = true <-> l1 = l2.
Proof.
  intros H l1. induction l1 as [|x t IH]; intros [|y t2]; cbn; split; intro E;
    try reflexivity; try discriminate.
  - apply andb_true_iff in E as [E1 E2]. apply H in E1. apply IH in E2. congruence.
  - injection E as -> ->. apply andb_true_iff. split; [apply H; reflexivity|apply IH; reflexivity].
Qed.
