#!/bin/sh
# regenerate _CoqProject and Makefile from the files present (run from /verif/coq)
cd "$(dirname "$0")"
{ echo "-R theories Verde"; echo "-arg -w -arg -notation-overridden,-deprecated-hint-without-locality,-deprecated-instance-without-locality,-deprecated-syntactic-definition"; find theories -name '*.v' | sort; } > _CoqProject.new
if ! cmp -s _CoqProject.new _CoqProject 2>/dev/null; then mv _CoqProject.new _CoqProject; coq_makefile -f _CoqProject -o Makefile >/dev/null; else rm _CoqProject.new; fi
[ -f Makefile ] || coq_makefile -f _CoqProject -o Makefile >/dev/null
